"""C04 — analysis output is a pure function of the source and options (DESIGN.md §5 C04).

P : Props/C04.lean (output stage: canonical ordering, error report).
K1: real CanonicalOrderingVisitor / ErrorLog on permuted inputs vs the compiled Lean model.
K2: replay matrix (TESTING, not proof): generated programs analysed in subprocesses under
    PYTHONHASHSEED x process history x {pyi text, ordered errors, pickle bytes, gzip pickle bytes}.
S : the property's own oracle on the real code: permutation invariance of the real visitor / real ErrorLog
    report invariants / the replay-matrix diff itself (shrunk by statement removal).
"""
import base64
import concurrent.futures
import hashlib
import itertools
import json
import os
import random
import shutil
import subprocess
import sys
import time

from harness import common

REQUIRED = [
    "canon_perm", "canon_perm_of_tiesFree", "canon_ties_keep_input_order", "canon_perm_not_full", "canon_idem",
    "pipeline_pure", "errors_sorted", "errors_sorted_not_full", "errors_unique", "errors_nodup",
    "errors_max_tracebacks", "errors_subset", "errors_complete", "errors_perm_invariant", "errors_perm_partial",
    "errors_perm_not_full",
]

WORK = os.path.join(common.BUILD, "c04")


# ----------------------------------------------------------------------------------------------
# token encoding of nodes (mirror of lean/Driver/C04.lean)
# ----------------------------------------------------------------------------------------------
class NotInFragment(Exception):
  pass


def estr(s):
  out = ["'"]
  for ch in s:
    o = ord(ch)
    if ch in " %\n\r\t" or o < 32 or o == 127:
      out.append("%%%02X" % o)
    else:
      out.append(ch)
  return "".join(out)


def e_list(f, xs):
  out = [str(len(xs))]
  for x in xs:
    out.extend(f(x))
  return out


def e_opt(f, x):
  return ["-"] if x is None else ["+"] + f(x)


def e_optstr(x):
  return ["-"] if x is None else [estr(x)]


def e_lit(v):
  if isinstance(v, bool):
    return ["b", "1" if v else "0"]
  if isinstance(v, int):
    return ["i", str(v)]
  if isinstance(v, str):
    return ["s", estr(v)]
  raise NotInFragment("literal %r" % (v,))


def e_ty(t):
  from pytype.pytd import pytd as P
  k = type(t)
  if k is P.AnythingType:
    return ["A"]
  if k is P.NothingType:
    return ["N"]
  if k is P.NamedType:
    return ["n", estr(t.name)]
  if k is P.ClassType:
    return ["c", estr(t.name)]
  if k is P.LateType:
    return ["l", estr(t.name)]
  if k is P.TypeParameter:
    if t.constraints or t.bound is not None or t.default is not None:
      raise NotInFragment("type parameter with constraints in type position")
    return ["p", estr(t.name)] + e_optstr(t.scope)
  if k is P.GenericType:
    return ["g"] + e_ty(t.base_type) + e_list(e_ty, t.parameters)
  if k is P.TupleType:
    return ["t"] + e_ty(t.base_type) + e_list(e_ty, t.parameters)
  if k is P.CallableType:
    return ["C"] + e_ty(t.base_type) + e_list(e_ty, t.parameters)
  if k is P.UnionType:
    return ["u"] + e_list(e_ty, t.type_list)
  if k is P.Literal:
    return ["L"] + e_lit(t.value)
  if k is P.Annotated:
    return ["a"] + e_ty(t.base_type) + e_list(lambda s: [estr(s)], t.annotations)
  raise NotInFragment(k.__name__)


def e_td(tp):
  from pytype.pytd import pytd as P
  if type(tp) is P.TemplateItem:
    tp = tp.type_param
  if type(tp) is not P.TypeParameter or tp.default is not None:
    raise NotInFragment("type param decl %s" % type(tp).__name__)
  return [estr(tp.name)] + e_list(e_ty, tp.constraints) + e_opt(e_ty, tp.bound) + e_optstr(tp.scope)


def e_param(p):
  kind = {"regular": "re", "posonly": "po", "kwonly": "kw"}[p.kind.value]
  return [estr(p.name)] + e_ty(p.type) + [kind, "1" if p.optional else "0"] + e_opt(e_ty, p.mutated_type)


def e_sig(s):
  return (e_list(e_param, s.params) + e_opt(e_param, s.starargs) + e_opt(e_param, s.starstarargs)
          + e_ty(s.return_type) + e_list(e_ty, s.exceptions) + e_list(e_td, s.template))


def e_deco(a):
  return [estr(a.name)]


def e_func(f):
  kind = {"method": "m", "staticmethod": "s", "classmethod": "c", "property": "p"}[f.kind.value]
  return ([estr(f.name)] + e_list(e_sig, f.signatures) + [kind, "1" if f.is_abstract else "0",
          "1" if f.is_coroutine else "0", "1" if f.is_final else "0"] + e_list(e_deco, f.decorators))


def e_const(c):
  return [estr(c.name)] + e_ty(c.type) + e_opt(e_lit, c.value)


def e_alias(a):
  return [estr(a.name)] + e_ty(a.type)


def e_class(c):
  return ([estr(c.name)] + e_list(lambda kv: [estr(kv[0])] + e_ty(kv[1]), c.keywords) + e_list(e_ty, c.bases)
          + e_list(e_func, c.methods) + e_list(e_const, c.constants) + e_list(e_class, c.classes)
          + e_list(e_deco, c.decorators) + e_opt(lambda sl: e_list(lambda s: [estr(s)], sl), c.slots)
          + e_list(e_td, c.template))


def e_unit(u):
  return ([estr(u.name)] + e_list(e_const, u.constants) + e_list(e_td, u.type_params) + e_list(e_class, u.classes)
          + e_list(e_func, u.functions) + e_list(e_alias, u.aliases))


def J(toks):
  return " ".join(toks)


# ----------------------------------------------------------------------------------------------
# real sort keys of everything the real visitor compared (read off the real canonical tree)
# ----------------------------------------------------------------------------------------------
def node_key(n):
  return (type(n).__name__, n._ToTuple())  # pylint: disable=protected-access


def preserve_constants(c):
  from pytype.pytd import pytd_visitors
  return pytd_visitors.CanonicalOrderingVisitor()._PreserveConstantsOrdering(c)  # pylint: disable=protected-access


class KeyTable:

  def __init__(self):
    self.keys = {}       # (kind, enc) -> key
    self.conflicts = 0
    self.ties_nonidentical = 0
    self.collections = 0

  def coll(self, kind, enc, keyf, xs):
    if len(xs) > 1:
      self.collections += 1
    seen = {}
    for x in xs:
      e = J(enc(x))
      k = keyf(x)
      old = self.keys.get((kind, e))
      if old is not None and old != k:
        self.conflicts += 1
      self.keys[(kind, e)] = k
      if k in seen and seen[k] != e:
        self.ties_nonidentical += 1
      seen.setdefault(k, e)

  def ty(self, t):
    from pytype.pytd import pytd as P
    if isinstance(t, P.GenericType):
      self.ty(t.base_type)
      for p in t.parameters:
        self.ty(p)
    elif isinstance(t, P.UnionType):
      self.coll("ty", e_ty, node_key, t.type_list)
      for p in t.type_list:
        self.ty(p)
    elif isinstance(t, P.Annotated):
      self.ty(t.base_type)

  def td(self, tp):
    from pytype.pytd import pytd as P
    if type(tp) is P.TemplateItem:
      tp = tp.type_param
    for c in tp.constraints:
      self.ty(c)
    if tp.bound is not None:
      self.ty(tp.bound)

  def param(self, p):
    self.ty(p.type)
    if p.mutated_type is not None:
      self.ty(p.mutated_type)

  def sig(self, s):
    for p in s.params:
      self.param(p)
    for p in (s.starargs, s.starstarargs):
      if p is not None:
        self.param(p)
    self.ty(s.return_type)
    self.coll("ty", e_ty, node_key, s.exceptions)
    for t in s.exceptions:
      self.ty(t)
    self.coll("titem", e_td, node_key, s.template)
    for t in s.template:
      self.td(t)

  def func(self, f):
    for s in f.signatures:
      self.sig(s)

  def cls(self, c):
    for _, t in c.keywords:
      self.ty(t)
    for t in c.bases:
      self.ty(t)
    self.coll("func", e_func, node_key, c.methods)
    for f in c.methods:
      self.func(f)
    if not preserve_constants(c):
      self.coll("const", e_const, node_key, c.constants)
    for k in c.constants:
      self.ty(k.type)
    self.coll("cls", e_class, node_key, c.classes)
    for k in c.classes:
      self.cls(k)
    self.coll("deco", e_deco, node_key, c.decorators)
    if c.slots is not None:
      self.coll("slot", lambda s: [estr(s)], lambda s: s, c.slots)
    for t in c.template:
      self.td(t)

  def unit(self, u):
    self.coll("const", e_const, node_key, u.constants)
    for k in u.constants:
      self.ty(k.type)
    self.coll("tparam", e_td, node_key, u.type_params)
    for t in u.type_params:
      self.td(t)
    self.coll("cls", e_class, node_key, u.classes)
    for k in u.classes:
      self.cls(k)
    self.coll("func", e_func, node_key, u.functions)
    for f in u.functions:
      self.func(f)
    self.coll("alias", e_alias, node_key, u.aliases)
    for a in u.aliases:
      self.ty(a.type)

  def lines(self):
    by_kind = {}
    for (kind, _), k in self.keys.items():
      by_kind.setdefault(kind, set()).add(k)
    rank = {}
    for kind, ks in by_kind.items():
      for i, k in enumerate(sorted(ks)):   # Python's own tuple/str comparison = what Node.__lt__ uses
        rank[(kind, k)] = i + 1
    return ["KEY %s %d %s" % (kind, rank[(kind, k)], e) for (kind, e), k in self.keys.items()]


# ----------------------------------------------------------------------------------------------
# generated pytd units (constructed directly) and their ~-permutations
# ----------------------------------------------------------------------------------------------
TYNAMES = ["int", "str", "float", "bool", "NoneType", "bytes", "A", "B", "m.C", "list", "object"]


class UnitGen:

  def __init__(self, rng):
    from pytype.pytd import pytd as P
    self.P = P
    self.rng = rng

  def leaf(self):
    P, r = self.P, self.rng
    c = r.randrange(12)
    if c < 5:
      return P.NamedType(r.choice(TYNAMES))
    if c < 7:
      return P.ClassType(r.choice(TYNAMES))
    if c == 7:
      return P.LateType(r.choice(["m.X", "n.Y"]))
    if c == 8:
      return P.AnythingType()
    if c == 9:
      return P.NothingType() if r.random() < 0.3 else P.TypeParameter(r.choice(["T", "S"]), scope=r.choice([None, "m.f", "m.A"]))
    return P.Literal(r.choice([0, 1, -3, 255, "a", "b c", True, False]))

  def ty(self, d):
    P, r = self.P, self.rng
    if d <= 0 or r.random() < 0.35:
      return self.leaf()
    c = r.randrange(10)
    if c < 3:
      base = r.choice([P.NamedType("list"), P.ClassType("list"), P.NamedType("dict"), P.NamedType("set"), P.LateType("m.G")])
      return P.GenericType(base, tuple(self.ty(d - 1) for _ in range(r.randrange(1, 3))))
    if c == 3:
      return P.TupleType(P.NamedType("tuple"), tuple(self.ty(d - 1) for _ in range(r.randrange(0, 4))))
    if c == 4:
      return P.CallableType(P.NamedType("typing.Callable"), tuple(self.ty(d - 1) for _ in range(r.randrange(1, 4))))
    if c == 5:
      return P.Annotated(self.ty(d - 1), tuple(r.sample(["'x'", "1", "Foo()"], r.randrange(1, 3))))
    members = [self.ty(d - 1) for _ in range(r.randrange(2, 6))]
    return P.UnionType(tuple(members))

  def tparam(self):
    P, r = self.P, self.rng
    cons = tuple(self.ty(1) for _ in range(r.choice([0, 0, 2, 3])))
    bound = self.ty(1) if not cons and r.random() < 0.4 else None
    return P.TypeParameter(r.choice(["T", "S", "K", "V", "T2"]), constraints=cons, bound=bound,
                           scope=r.choice([None, "m", "m.f", "m.A"]))

  def param(self, name):
    P, r = self.P, self.rng
    return P.Parameter(name, self.ty(2), r.choice(list(P.ParameterKind)), r.random() < 0.3,
                       self.ty(1) if r.random() < 0.15 else None)

  def sig(self):
    P, r = self.P, self.rng
    names = r.sample(["self", "x", "y", "z", "a", "b"], r.randrange(0, 4))
    exc = tuple(r.choice([P.NamedType(n) for n in ["ValueError", "KeyError", "TypeError", "OSError"]] + [self.ty(1)])
                for _ in range(r.choice([0, 0, 1, 2, 3, 4])))
    tmpl = tuple(P.TemplateItem(self.tparam()) for _ in range(r.choice([0, 0, 0, 1, 2, 3])))
    return P.Signature(params=tuple(self.param(n) for n in names),
                       starargs=self.param("args") if r.random() < 0.2 else None,
                       starstarargs=self.param("kwargs") if r.random() < 0.2 else None,
                       return_type=self.ty(3), exceptions=exc, template=tmpl)

  def func(self, name):
    P, r = self.P, self.rng
    flags = P.MethodFlag.NONE
    if r.random() < 0.15:
      flags = r.choice([P.MethodFlag.ABSTRACT, P.MethodFlag.COROUTINE, P.MethodFlag.FINAL])
    decos = tuple(self.deco(n) for n in r.sample(["d1", "d2"], r.choice([0, 0, 0, 1, 2])))
    return P.Function(name, tuple(self.sig() for _ in range(r.choice([1, 1, 1, 2, 3]))),
                      r.choice(list(P.MethodKind)), flags, decos)

  def deco(self, n):
    return self.P.Alias(n, self.P.NamedType(n))

  def const(self, name):
    r = self.rng
    return self.P.Constant(name, self.ty(3), r.choice([None, None, None, 1, "v", True]))

  def cls(self, name, depth):
    P, r = self.P, self.rng
    special = r.random()
    decos = r.sample(["final", "attr.s", "dataclasses.dataclass", "zdeco", "adeco"], r.choice([0, 0, 1, 2, 3]))
    if special > 0.35:
      decos = [d for d in decos if d not in ("attr.s", "dataclasses.dataclass")]
    bases = [self.ty(1) for _ in range(r.randrange(0, 3))]
    if 0.30 < special < 0.40:
      bases.append(r.choice([P.NamedType("typing.NamedTuple"), P.ClassType("collections.namedtuple"),
                             P.GenericType(P.NamedType("typing.NamedTuple"), (P.NamedType("int"),))]))
    mnames = [r.choice(["__init__", "f", "g", "h", "run", "f"]) for _ in range(r.randrange(0, 5))]
    cnames = [r.choice(["x", "y", "z", "k", "x"]) for _ in range(r.randrange(0, 5))]
    nested = [self.cls(r.choice(["I", "J", "I2"]), depth - 1) for _ in range(r.choice([0, 0, 0, 1, 2]) if depth > 0 else 0)]
    slots = None if r.random() < 0.6 else tuple(r.sample(["b", "a", "c", "_d", "Z"], r.randrange(0, 5)))
    kws = tuple(("metaclass", self.ty(1)) for _ in range(r.choice([0, 0, 0, 1])))
    tmpl = tuple(P.TemplateItem(self.tparam()) for _ in range(r.choice([0, 0, 1, 2])))
    return P.Class(name, kws, tuple(bases), tuple(self.func(n) for n in mnames), tuple(self.const(n) for n in cnames),
                   tuple(nested), tuple(self.deco(d) for d in decos), slots, tmpl)

  def unit(self):
    P, r = self.P, self.rng
    cn = [r.choice(["x", "y", "z", "CONST", "x"]) for _ in range(r.randrange(0, 6))]
    fn = [r.choice(["f", "g", "main", "f"]) for _ in range(r.randrange(0, 5))]
    kn = [r.choice(["A", "B", "C", "A"]) for _ in range(r.randrange(0, 4))]
    an = [r.choice(["al", "bl", "cl"]) for _ in range(r.randrange(0, 4))]
    return P.TypeDeclUnit("m", tuple(self.const(n) for n in cn), tuple(self.tparam() for _ in range(r.choice([0, 1, 2, 3]))),
                          tuple(self.cls(n, 1) for n in kn), tuple(self.func(n) for n in fn),
                          tuple(P.Alias(n, self.ty(2)) for n in an))


class Permuter:
  """Applies an arbitrary permutation to exactly the collections the visitor sorts (the relation ~)."""

  def __init__(self, rng, choose=None):
    from pytype.pytd import pytd as P
    self.P = P
    self.rng = rng
    self.choose = choose   # optional: function(list) -> permuted list (exhaustive mode)

  def sh(self, xs):
    xs = list(xs)
    if self.choose is not None:
      return tuple(self.choose(xs))
    self.rng.shuffle(xs)
    return tuple(xs)

  def ty(self, t):
    P = self.P
    k = type(t)
    if k in (P.GenericType, P.TupleType, P.CallableType):
      return k(self.ty(t.base_type), tuple(self.ty(p) for p in t.parameters))
    if k is P.UnionType:
      return P.UnionType(self.sh(self.ty(p) for p in t.type_list))
    if k is P.Annotated:
      return P.Annotated(self.ty(t.base_type), t.annotations)
    return t

  def tp(self, t):
    return t.Replace(constraints=tuple(self.ty(c) for c in t.constraints),
                     bound=None if t.bound is None else self.ty(t.bound))

  def param(self, p):
    return p.Replace(type=self.ty(p.type), mutated_type=None if p.mutated_type is None else self.ty(p.mutated_type))

  def sig(self, s):
    P = self.P
    return P.Signature(params=tuple(self.param(p) for p in s.params),
                       starargs=None if s.starargs is None else self.param(s.starargs),
                       starstarargs=None if s.starstarargs is None else self.param(s.starstarargs),
                       return_type=self.ty(s.return_type), exceptions=self.sh(self.ty(t) for t in s.exceptions),
                       template=self.sh(P.TemplateItem(self.tp(t.type_param)) for t in s.template))

  def func(self, f):
    return f.Replace(signatures=tuple(self.sig(s) for s in f.signatures))

  def const(self, c):
    return c.Replace(type=self.ty(c.type))

  def cls(self, c):
    P = self.P
    consts = [self.const(k) for k in c.constants]
    consts = tuple(consts) if preserve_constants(c) else self.sh(consts)
    return P.Class(c.name, tuple((k, self.ty(v)) for k, v in c.keywords), tuple(self.ty(b) for b in c.bases),
                   self.sh(self.func(f) for f in c.methods), consts, self.sh(self.cls(k) for k in c.classes),
                   self.sh(c.decorators), None if c.slots is None else self.sh(c.slots),
                   tuple(P.TemplateItem(self.tp(t.type_param)) for t in c.template))

  def unit(self, u):
    P = self.P
    return P.TypeDeclUnit(u.name, self.sh(self.const(c) for c in u.constants), self.sh(self.tp(t) for t in u.type_params),
                          self.sh(self.cls(c) for c in u.classes), self.sh(self.func(f) for f in u.functions),
                          self.sh(a.Replace(type=self.ty(a.type)) for a in u.aliases))


def real_canon(u):
  from pytype.pytd import pytd_utils
  return pytd_utils.CanonicalOrdering(u)


def canon_case_lines(variants):
  """-> (driver lines, expected outputs (enc of real canon per variant), table stats)"""
  reals = [real_canon(v) for v in variants]
  kt = KeyTable()
  for c in reals:
    kt.unit(c)
  lines = ["CLR"] + kt.lines() + ["CANON " + J(e_unit(v)) for v in variants]
  return lines, [J(e_unit(c)) for c in reals], kt


def exhaustive_variants():
  """One fixed unit, every combination of permutations of 4 of its sorted collections (3!*2!*3!*2! = 144)."""
  from pytype.pytd import pytd as P
  n = P.NamedType
  u3 = (n("str"), n("int"), P.GenericType(n("list"), (P.UnionType((n("float"), n("bool"))),)))
  sig = P.Signature((), None, None, n("int"), (n("ValueError"), n("KeyError")), ())
  out = []
  for pc in itertools.permutations(range(3)):
    for pm in itertools.permutations(range(2)):
      for pu in itertools.permutations(range(3)):
        for pe in itertools.permutations(range(2)):
          consts = [P.Constant("c", P.UnionType(tuple(u3[i] for i in pu)), None), P.Constant("a", n("int"), None),
                    P.Constant("b", n("str"), 1)]
          ms = [P.Function("run", (sig.Replace(exceptions=tuple(sig.exceptions[i] for i in pe)),), P.MethodKind.METHOD),
                P.Function("__init__", (sig,), P.MethodKind.METHOD)]
          cls = P.Class("K", (), (n("object"),), tuple(ms[i] for i in pm), (), (), (), ("b", "a"), ())
          out.append(P.TypeDeclUnit("m", tuple(consts[i] for i in pc), (), (cls,), (), ()))
  return out


# ----------------------------------------------------------------------------------------------
# error batches
# ----------------------------------------------------------------------------------------------
MARK = "Called from (traceback):"


def tb_of(frames):
  return None if frames is None else MARK + "\n  " + "\n  ".join(frames)


def enc_err_tokens(e):
  return [estr(e["file"] or ""), str(e["line"]), str(e["col"]), estr(e["method"] or ""), estr(e["name"]),
          estr(e["message"])] + e_optstr(e["details"]) + e_optstr(e["tb"])


def real_errorlog(batch):
  from pytype.errors import errors
  log = errors.ErrorLog(src="")
  for e in batch:
    log._add(errors.Error.for_test(errors.SEVERITY_ERROR, e["message"], e["name"], filename=e["file"],  # pylint: disable=protected-access
                                   line=e["line"], col=e["col"], methodname=e["method"], details=e["details"],
                                   traceback=e["tb"]))
  return log


def real_report(batch):
  out = []
  for x in real_errorlog(batch).unique_sorted_errors():
    out.append({"file": x.filename, "line": x.line, "col": x._col, "method": x.methodname, "name": x.name,  # pylint: disable=protected-access
                "message": x._message, "details": x._details, "tb": x.traceback})  # pylint: disable=protected-access
  return out


def report_tokens(rep):
  toks = [str(len(rep))]
  for e in rep:
    toks += enc_err_tokens(e)
  return J(toks)


def gen_err(rng, files, lines):
  chain = ["line 9, in <module>", "line 7, in g", "line 3, in h", "line 12, in k"]
  c = rng.randrange(8)
  if c < 2:
    tb = None
  elif c < 6:
    i = rng.randrange(len(chain))
    tb = tb_of(chain[i:])                      # suffixes of one chain: pairwise comparable
  elif c == 6:
    tb = tb_of([rng.choice(["line 20, in p", "line 21, in q", "line 22, in r", "line 23, in s", "line 24, in t"])])
  else:
    tb = rng.choice(["", MARK, MARK + "\n  line 7, in g"])
  return {"file": rng.choice(files), "line": rng.choice(lines), "col": rng.choice([0, 0, 4]),
          "method": rng.choice([None, "", "g", "h"]), "name": rng.choice(["name-error", "attribute-error"]),
          "message": rng.choice(["m1", "No attribute 'x' on A", "m1"]), "details": rng.choice([None, None, "", "d"]),
          "tb": tb}


PATHOLOGICAL = None


def pathological_batch():
  """Witness of errors_sorted_not_full: method/file names containing a formatted position."""
  from pytype import utils
  red = utils.COLOR_ERROR_NAME_TEMPLATE % "error"
  a = {"file": "x", "line": 1, "col": 0, "method": "y:2:2: " + red + ": in z", "name": "name-error", "message": "m",
       "details": None, "tb": MARK + "a"}
  b = {"file": "x:1:1: " + red + ": in y", "line": 2, "col": 1, "method": "z", "name": "name-error", "message": "m",
       "details": None, "tb": MARK + "b"}
  c = {"file": "x", "line": 5, "col": 0, "method": "", "name": "name-error", "message": "other", "details": None,
       "tb": None}
  return [a, b, c]


def ends_with(a, b):
  return a.endswith(b)


def tb_comparable(l, r):
  """independent re-statement of 'comparable' for the oracle: equal, or one (marker stripped) ends with the other"""
  if l == r:
    return True
  ls = l[len(MARK):] if l else ""
  rs = r[len(MARK):] if r else ""
  return ends_with(ls, rs) or ends_with(rs, ls)


def errors_oracle(batch, rng=None):
  """The property's own oracle on the REAL ErrorLog: returns a description of what fails, or None."""
  from pytype.errors import errors
  log = real_errorlog(batch)
  rep = log.unique_sorted_errors()
  keyf = lambda x: (x.filename or "", x.line)
  reps = [x.get_unique_representation() for x in rep]
  logged = list(log)
  same_file = len({x.filename or "" for x in logged}) <= 1
  if same_file and any(keyf(rep[i]) > keyf(rep[i + 1]) for i in range(len(rep) - 1)):
    return "report not sorted by (file, line)"
  for i in range(len(rep)):
    for j in range(i + 1, len(rep)):
      if reps[i] == reps[j] and tb_comparable(rep[i].traceback, rep[j].traceback):
        return "two reported errors with the same unique representation and comparable tracebacks"
  if {r for r in reps} != {x.get_unique_representation() for x in logged}:
    return "a logged error representation is missing from the report (or one was invented)"
  for r in set(reps):
    if reps.count(r) > errors.MAX_TRACEBACKS:
      return "more than MAX_TRACEBACKS reports for one representation"
  if report_tokens(real_report(batch)) != report_tokens(real_report(batch)):
    return "the same errors added in the same order give two different reports"
  if rng is not None:
    # permutation invariance when the relative order at each position is kept
    idx = list(range(len(batch)))
    rng.shuffle(idx)
    groups = {}
    for i, e in enumerate(batch):
      groups.setdefault((e["file"] or "", e["line"]), []).append(i)
    its = {k: iter(v) for k, v in groups.items()}
    perm = [batch[next(its[(batch[i]["file"] or "", batch[i]["line"])])] for i in idx]
    if report_tokens(real_report(perm)) != report_tokens(real_report(batch)):
      return "report depends on insertion order although the order at every (file,line) is unchanged"
  return None


# ----------------------------------------------------------------------------------------------
# K1
# ----------------------------------------------------------------------------------------------
def k1_canon(res, rng, tier, drv, disagreements):
  gen = UnitGen(rng)
  cases = []      # (label, variants)
  ex = exhaustive_variants()
  cases.append(("exhaustive-144", ex))
  n_rand = 250 if tier == "quick" else 2500
  for i in range(n_rand):
    u = gen.unit()
    pm = Permuter(rng)
    cases.append(("rand%d" % i, [u, pm.unit(u), pm.unit(u)]))
  lines, expect, meta = [], [], []
  stats = {"collections_sorted": 0, "key_table_conflicts": 0, "real_key_ties_between_different_nodes": 0,
           "not_in_fragment": 0}
  for label, variants in cases:
    try:
      ls, exp, kt = canon_case_lines(variants)
    except NotInFragment:
      stats["not_in_fragment"] += 1
      continue
    stats["collections_sorted"] += kt.collections
    stats["key_table_conflicts"] += kt.conflicts
    stats["real_key_ties_between_different_nodes"] += kt.ties_nonidentical
    lines += ls
    expect.append(exp)
    meta.append((label, variants, kt.ties_nonidentical == 0))
  out = drv.batch(lines)
  pos = 0
  nontrivial = set()
  evals = 0
  tiesfree_cases = 0
  keyinj_cases = 0
  for (label, variants, keyinj), exp in zip(meta, expect):
    got = out[pos:pos + len(variants)]
    pos += len(variants)
    encs = [J(e_unit(v)) for v in variants]
    flags = []
    for v_enc, g, e in zip(encs, got, exp):
      evals += 1
      parts = g.split(" ", 3)
      if parts[0] != "OK" or len(parts) < 4 or parts[3] != e:
        disagreements.append({"kind": "canon-model-vs-real", "case": label, "unit": v_enc, "real": e, "model": g[:4000]})
        continue
      flags.append((parts[1], parts[2]))
      if e != v_enc:
        nontrivial.add(hashlib.sha1(v_enc.encode()).hexdigest())
    ties_free = bool(flags) and all(f[1] == "1" for f in flags)
    if ties_free:
      tiesfree_cases += 1
    if keyinj:                 # KeyInj holds for the real keys: no two different nodes tie in any sorted collection
      keyinj_cases += 1
      if len(set(exp)) != 1:   # the theorem's conclusion, evaluated on the real visitor
        disagreements.append({"kind": "real-canon-not-permutation-invariant", "case": label, "units": encs[:3],
                              "real": exp[:3]})
    c0 = real_canon(variants[0])
    if J(e_unit(real_canon(c0))) != J(e_unit(c0)):
      disagreements.append({"kind": "real-canon-not-idempotent", "case": label, "unit": encs[0]})
  stats.update({"canon_cases": len(meta), "canon_units_evaluated": evals, "ties_free_cases": tiesfree_cases, "key_injective_cases": keyinj_cases,
                "random_units": n_rand, "exhaustive_permutation_variants": len(ex)})
  res.add_samples([{"canon_unit": J(e_unit(meta[1][1][0]))[:600], "real_canonical": expect[1][0][:600]}])
  return evals, nontrivial, stats


def k1_errors(res, rng, tier, drv, disagreements):
  batches = []
  # exhaustive small: every sequence (length <= 4) over 6 errors that share/differ in position and traceback
  base = []
  for line, tb in [(3, None), (3, tb_of(["line 9, in <module>", "line 3, in g"])), (3, tb_of(["line 3, in g"])),
                   (3, tb_of(["line 5, in h"])), (1, None), (1, tb_of(["line 3, in g"]))]:
    base.append({"file": "f.py", "line": line, "col": 0, "method": "g", "name": "attribute-error", "message": "m",
                 "details": None, "tb": tb})
  for n in range(0, 5 if tier == "quick" else 6):
    for seq in itertools.product(range(6), repeat=n):
      batches.append([base[i] for i in seq])
  n_ex = len(batches)
  # MAX_TRACEBACKS: five pairwise incomparable tracebacks at one position, all orders of 4 of them
  inc = [dict(base[0], tb=tb_of(["line %d, in p%d" % (20 + i, i)])) for i in range(5)]
  for seq in itertools.permutations(range(5), 4):
    batches.append([inc[i] for i in seq])
  batches.append(pathological_batch())
  n_rand = 600 if tier == "quick" else 6000
  for i in range(n_rand):
    files = rng.choice([["f.py"], ["f.py"], [None, "", "f.py", "g.py"], ["b.py", "a.py", "a.py "]])
    lines_ = rng.choice([[1, 2, 3], [0, 1], [5], list(range(1, 30))])
    batches.append([gen_err(rng, files, lines_) for _ in range(rng.choice([1, 2, 3, 5, 8, 13, 20]))])
  lines = []
  for b in batches:
    toks = [str(len(b))]
    for e in b:
      toks += enc_err_tokens(e)
    lines.append("ERRS " + J(toks))
  out = drv.batch(lines)
  nontrivial = set()
  guard_ok = 0
  unsorted_under_guard = 0
  for b, ln, g in zip(batches, lines, out):
    real = report_tokens(real_report(b))
    parts = g.split(" ", 3)
    model = parts[3] if len(parts) > 3 else ""
    if parts[0] != "OK" or model != real:
      disagreements.append({"kind": "errors-model-vs-real", "batch": b, "real": real, "model": g[:3000]})
      continue
    if parts[1] == "1":
      guard_ok += 1
      if parts[2] != "1":
        unsorted_under_guard += 1
    n_out = int(real.split(" ", 1)[0])
    if 0 < n_out < len(b) or len({(e["file"] or "", e["line"]) for e in b}) > 1:
      nontrivial.add(hashlib.sha1(ln.encode()).hexdigest())
  if unsorted_under_guard:
    disagreements.append({"kind": "model-report-unsorted-under-guard", "count": unsorted_under_guard})
  stats = {"error_batches": len(batches), "exhaustive_sequences": n_ex, "random_batches": n_rand,
           "batches_with_repKeyOK": guard_ok, "pathological_witness_replayed": 1}
  res.add_samples([{"error_batch": batches[n_ex + 3][:3], "real_report": report_tokens(real_report(batches[n_ex + 3]))[:400]}])
  return len(batches), nontrivial, stats


# ----------------------------------------------------------------------------------------------
# K2: generated programs and the replay matrix
# ----------------------------------------------------------------------------------------------
LITS = ["1", "'s'", "2.5", "None", "b'x'", "True", "[1, 's']", "{'k': 1, 2: 'v'}", "(1, 's')", "{1, 's', None}",
        "{1: {2, 's'}}", "frozenset([1, 's'])", "[None, 1.5]"]


def gen_program(rng, n_chunks=None):
  """A program = list of self-contained top-level chunks (so that any subset is still a program)."""
  chunks = ["import typing"]
  n = n_chunks or rng.randrange(6, 14)
  classes, funcs = [], []
  for i in range(n):
    c = rng.randrange(12)
    if c < 3:
      name = "C%d" % i
      base = "(%s)" % rng.choice(classes) if classes and rng.random() < 0.4 else ""
      body = ["class %s%s:" % (name, base)]
      body.append("  K%d = %s" % (i, rng.choice(LITS)))
      body.append("  def __init__(self, x=%s):" % rng.choice(LITS))
      body.append("    self.a%d = x" % i)
      body.append("    self.b%d = %s" % (i, rng.choice(LITS)))
      if rng.random() < 0.5:
        body.append("    self.c%d = {%s: %s, %s: %s}" % (i, rng.choice(["1", "'k'", "None"]), rng.choice(LITS),
                                                        rng.choice(["2", "'j'", "2.5"]), rng.choice(LITS)))
      body.append("  def m%d(self, z):" % i)
      body.append("    if z:")
      body.append("      return %s" % rng.choice(LITS))
      body.append("    elif self.a%d:" % i)
      body.append("      return %s" % rng.choice(LITS + ["self", "self.b%d" % i]))
      body.append("    return %s" % rng.choice(LITS))
      if rng.random() < 0.4:
        body.append("  def n%d(self):" % i)
        body.append("    return self.missing%d" % i)
      chunks.append("\n".join(body))
      classes.append(name)
    elif c < 5:
      name = "f%d" % i
      body = ["def %s(a, b=%s):" % (name, rng.choice(LITS)), "  if a:", "    return %s" % rng.choice(LITS + ["a", "b"]),
              "  elif b:", "    return %s" % rng.choice(LITS + ["a + 1"]), "  return %s" % rng.choice(LITS + ["b"])]
      chunks.append("\n".join(body))
      funcs.append(name)
    elif c == 5:
      chunks.append("x%d = %s" % (i, rng.choice(LITS)))
    elif c == 6 and classes:
      k = rng.sample(classes, min(len(classes), rng.randrange(1, 4)))
      chunks.append("s%d = {%s}\nfor c%d in s%d:\n  v%d = c%d()\nw%d = [k() for k in s%d]" % (
          i, ", ".join(k), i, i, i, i, i, i))
    elif c == 7:
      chunks.append("u%d = undefined_%d" % (i, i))
    elif c == 8 and classes:
      k = rng.choice(classes)
      chunks.append("p%d = %s().q%d; r%d = %s().s%d" % (i, k, i, i, k, i))          # two errors on one line
    elif c == 9 and funcs:
      chunks.append("t%d = (%s(1, 2, 3, 4), undefined_t%d, 1 + 's')" % (i, rng.choice(funcs), i))
    elif c == 10 and rng.random() < 0.5:
      tys = rng.sample(["int", "str", "bytes", "float", "list", "None"], rng.randrange(2, 5))
      body = []
      for t in tys:
        body.append("@typing.overload\ndef o%d(x: %s, y: %s = ...) -> %s: ..." % (i, t, rng.choice(tys), t))
      body.append("def o%d(x, y=None):\n  return x" % i)
      body.append("q%d = o%d(%s)" % (i, i, rng.choice(LITS)))
      chunks.append("\n".join(body))
    elif c == 10:
      chunks.append("def g%d(x):\n  return x + 1\ng%d('a')\ng%d('b')\ng%d(None)\ng%d([1])\ng%d({})" % (i, i, i, i, i, i))
    else:
      chunks.append("def h%d(x: typing.Union[int, str, None], y: 'typing.Optional[bytes]' = None):\n"
                    "  if isinstance(x, int):\n    return {x: y}\n  elif isinstance(x, str):\n    return {x, y}\n"
                    "  return (x, y, %s)\nz%d = h%d(%s)" % (i, rng.choice(LITS), i, i, rng.choice(LITS)))
  return chunks


# deterministic family, always in the matrix: constructs whose output has to be put into a canonical order by pytype
# itself (sets iterated while printing / reporting) or that touch printer / loader state surviving between analyses
FAMILY = [
    ["from typing import NamedTuple",
     "class Point(NamedTuple):\n  x: int = 0\n  y: int = 0\n  label: str = ''",
     "def origin() -> Point:\n  return Point()"],
    ["import typing",
     "def pu(x: typing.Union[int, float, str, bytes], y: typing.Union[complex, int, None, str] = None)"
     " -> typing.Union[float, int, bytes, str]:\n  return x",
     "def pv(x: typing.Union[bytearray, bytes, str, int], *a: typing.Union[float, int, list, str],"
     " **k: typing.Union[complex, float, dict, set]):\n  return x",
     "pw: typing.Union[int, float, str, None, bytes] = 1"],
    ["import typing",
     "class A:\n  T = typing.TypeVar('T', bound=int)\n  def f(self, x: T) -> T:\n    return x",
     "class B:\n  T = typing.TypeVar('T', bound=str)\n  def f(self, x: T) -> T:\n    return x",
     "def g():\n  T = typing.TypeVar('T', bound=float)\n  def h(x: T) -> T:\n    return x\n  return h",
     "class D:\n  S = typing.TypeVar('S', int, str)\n  def f(self, x: S) -> S:\n    return x",
     "class E:\n  S = typing.TypeVar('S', bytes, float)\n  def f(self, x: S) -> S:\n    return x"],
    ["def helper(x):\n  return x.nope + 1",
     "def wrapper(x):\n  return helper(x)",
     "def wrapper2(x):\n  return wrapper(x)",
     "wrapper(1); wrapper('a'); wrapper(2.0)",
     "wrapper2(b''); wrapper2([])",
     "helper(None)"],
    ["# pytype: features=aaa-b,ccc-d,eee-f",
     "x = 1  # pytype: disable=foo-bar,baz-qux,abc-def",
     "y = undefined_y  # pytype: disable=zzz-a,name-error,yyy-b",
     "from typing import TypedDict",
     "class P(TypedDict):\n  a: int\n  b: str\n  c: int\n  d: str",
     "def f(p: P): pass",
     "f({'x': 1, 'y': 2, 'z': 3})",
     "p: P = {'q': 1, 'r': 2}"],
    ["def two(x, y) -> int:\n  if x:\n    print('a')\n  elif y:\n    print('b')",
     "def three(x, y, z) -> str:\n  if x:\n    print('a')\n  elif y:\n    print('b')\n  elif z:\n    print('c')",
     "def one(x) -> int:\n  if x:\n    return 1\n  print(x)"],
    ["import lib",
     "def a1(x: lib.Alpha, y: lib.Beta) -> lib.Gamma:\n  return lib.Gamma()",
     "def a2(x: lib.Delta) -> lib.Epsilon:\n  return lib.Epsilon()",
     "class Mine(lib.Zeta):\n  def m(self, e: lib.Eta) -> 'lib.Theta':\n    return lib.Theta()",
     "vals = [lib.Alpha(), lib.Beta(), lib.Iota()]",
     "k = lib.Kappa"],
    ["from typing import Any, Callable, Optional, Union",
     "def ident(x: Any) -> Any:\n  return x",
     "def cb(f: Callable[[int], Optional[str]], g: Union[int, str]) -> Callable[..., Any]:\n  return f",
     "table = {}",
     "def put(k, v):\n  table[k] = v"],
    # error messages that print unions: several Literal types, classes, Optional, containers, a callable, nested unions —
    # every printed union must come out in one order whatever the hash seed is
    ["from typing import Callable, Literal, Optional, Union",
     "class Red: pass\nclass Green: pass\nclass Blue: pass\nclass Cyan: pass",
     "def lit(x: Literal['zeta', 'alpha', 'beta', 'gamma', 'delta', 'epsilon']): pass",
     "def lit2(x: Union[Literal['one', 'two'], Literal[3, 4, 5], Literal[True], bytes, None]): pass",
     "def cls(x: Union[Red, Green, Blue, Cyan, int, str, None]): pass",
     "def cont(x: Union[list[Union[Red, Green, int]], dict[str, Union[Blue, Cyan, None]], tuple[Union[int, str, bytes], ...]]): pass",
     "def fn(x: Callable[[Union[Red, Blue, int]], Optional[Union[Green, Cyan, str]]]): pass",
     "lit(1); lit2(2.5); cls(2.5); cont(2.5); fn(2.5)",
     "lit('nope'); lit2('three'); cls(b''); cont({1: 2.5}); fn([Red()])",
     "v = [Red(), Green(), Blue(), 1, 's', None, b'b', 2.5][0]",
     "v.nope",
     "v + 1",
     "w: Union[Literal['a', 'b', 'c'], Literal[1, 2]] = 'zzz'",
     "def ret(c) -> Union[Literal['p', 'q', 'r'], Red, Green]:\n  return 2.5 if c else b''"],
    # unions in annotations that end up in messages through declarations printed as they were written (signature
    # mismatches of overrides, wrong-arg-types, bad-return): analysed after a variant whose unions list the same members
    # in another order (history "after_variant"), every message must be the one a fresh process prints
    ["from typing import Optional, Union",
     "class Base:\n  def f(self, x: int | str, y: Union[bytes, None, float] = None) -> None: ...\n"
     "  def g(self, *, k: Optional[Union[str, int]]) -> Union[list[int | str], dict[str, bytes | None]]: ...",
     "class Child(Base):\n  def f(self) -> None: ...\n  def g(self, k) -> int: ...",
     "def h(a: str | int | None, b: Union[float, bytes]) -> bytes | str:\n  return 2.5",
     "h(2.5, 's')\nh([], {})",
     "u: dict[int | str, Union[bytes, float]] = {2.5: 's'}"],
]


def prog_text(chunks):
  return "\n".join(chunks) + "\n"


HISTORIES = ["fresh", "after_k", "reused_loader", "after_variant"]


def union_variant(src):
  """the same program with the members of every union annotation listed in the opposite order (`A | B` -> `B | A`,
  `Union[A, B, C]` -> `Union[C, B, A]`): to pytype an equal program up to the spelling of its unions; when the source has
  no union it is returned unchanged (history: the same module analysed twice)"""
  import ast

  class Swap(ast.NodeTransformer):
    def visit_BinOp(self, node):
      self.generic_visit(node)
      if isinstance(node.op, ast.BitOr):
        node.left, node.right = node.right, node.left
      return node

    def visit_Subscript(self, node):
      self.generic_visit(node)
      if isinstance(node.value, ast.Name) and node.value.id == "Union" and isinstance(node.slice, ast.Tuple):
        node.slice.elts = node.slice.elts[::-1]
      return node

  try:
    tree = ast.parse(src)
  except SyntaxError:
    return src

  def in_ann(n):
    for f in ("annotation", "returns"):
      a = getattr(n, f, None)
      if a is not None:
        setattr(n, f, Swap().visit(a))
  for n in ast.walk(tree):
    in_ann(n)
  out = ast.unparse(tree) + "\n"
  try:
    compile(out, "<variant>", "exec")
  except SyntaxError:
    return src
  return out


LIB_PYI = "\n".join("class %s:\n    x: int\n" % n for n in
                    ["Alpha", "Beta", "Gamma", "Delta", "Epsilon", "Zeta", "Eta", "Theta", "Iota", "Kappa"])


def ensure_lib():
  d = os.path.join(WORK, "lib")
  os.makedirs(d, exist_ok=True)
  p = os.path.join(d, "lib.pyi")
  if not os.path.exists(p) or open(p).read() != LIB_PYI:
    open(p, "w").write(LIB_PYI)
  return d


def run_children(jobs, max_workers=16, timeout=900):
  """jobs: list of dict(hashseed, history, clock_offset, items). Returns list of child outputs (or error dicts)."""
  common.ensure_ext()
  run_dir = os.path.join(WORK, "run%d_%d" % (os.getpid(), int(time.time() * 1000) % 100000))
  os.makedirs(run_dir, exist_ok=True)
  env_base = dict(os.environ)
  env_base["PYTHONPATH"] = common.VERIF + os.pathsep + env_base.get("PYTHONPATH", "")
  env_base["C04_LIB_DIR"] = ensure_lib()

  def one(ij):
    i, job = ij
    jf = os.path.join(run_dir, "job%d.json" % i)
    of = os.path.join(run_dir, "out%d.json" % i)
    with open(jf, "w") as fh:
      json.dump(job, fh)
    env = dict(env_base)
    env["PYTHONHASHSEED"] = str(job["hashseed"])
    try:
      r = subprocess.run([common.PY, "-m", "harness.c04_child", jf, of], cwd=common.VERIF, env=env,
                         stdout=subprocess.PIPE, stderr=subprocess.PIPE, text=True, timeout=timeout)
    except subprocess.TimeoutExpired:
      return {"error": "timeout", "job": i}
    if r.returncode != 0 or not os.path.exists(of):
      return {"error": "child failed rc=%s: %s" % (r.returncode, r.stderr[-1500:]), "job": i}
    return json.load(open(of))
  try:
    with concurrent.futures.ThreadPoolExecutor(max_workers=max_workers) as ex:
      outs = list(ex.map(one, enumerate(jobs)))
  finally:
    shutil.rmtree(run_dir, ignore_errors=True)
  return outs


def matrix_jobs(programs, unrelated, seeds, k=2, chunks_per_seed=4):
  """programs: {pid: src}.  Builds the jobs of the full matrix seeds x histories."""
  jobs = []
  pids = sorted(programs)
  for si, s in enumerate(seeds):
    for pid in pids:
      jobs.append({"hashseed": s, "history": "fresh", "clock_offset": 100000 * si,
                   "items": [{"id": pid, "src": programs[pid], "loader": "new", "record": True}]})
    parts = [pids[i::chunks_per_seed] for i in range(chunks_per_seed)]
    for ci, part in enumerate(parts):
      if not part:
        continue
      items = []
      for j, pid in enumerate(part):
        for q in range(k):
          items.append({"id": "U", "src": unrelated[(ci * 7 + j * k + q + si) % len(unrelated)], "loader": "new",
                        "record": False})
        items.append({"id": pid, "src": programs[pid], "loader": "new", "record": True})
      jobs.append({"hashseed": s, "history": "after_k", "clock_offset": 100000 * si + 5000 + 100 * ci, "items": items})
      items = [{"id": "U", "src": unrelated[(ci + si) % len(unrelated)], "loader": "shared", "record": False}]
      order = part[::-1] if si % 2 else part      # reused loader sees the programs in a seed-dependent order
      items += [{"id": pid, "src": programs[pid], "loader": "shared", "record": True} for pid in order]
      jobs.append({"hashseed": s, "history": "reused_loader", "clock_offset": 100000 * si + 9000 + 100 * ci,
                   "items": items})
      items = []
      for pid in part:
        items.append({"id": "V", "src": union_variant(programs[pid]), "loader": "new", "record": False})
        items.append({"id": pid, "src": programs[pid], "loader": "new", "record": True})
      jobs.append({"hashseed": s, "history": "after_variant", "clock_offset": 100000 * si + 7000 + 100 * ci,
                   "items": items})
  return jobs


OUTPUT_KEYS = ["outcome", "pyi", "errors", "pickle", "pickle_gz"]


def first_diff(a, b, key):
  if key in ("pickle", "pickle_gz") and isinstance(a, str) and isinstance(b, str) and not a.startswith("EXC"):
    try:
      ba, bb = base64.b64decode(a), base64.b64decode(b)
      n = next((i for i in range(min(len(ba), len(bb))) if ba[i] != bb[i]), min(len(ba), len(bb)))
      return {"first_differing_byte": n, "a": ba[max(0, n - 8):n + 24].hex(), "b": bb[max(0, n - 8):n + 24].hex(),
              "len_a": len(ba), "len_b": len(bb)}
    except Exception:  # pylint: disable=broad-except
      pass
  if key == "errors":
    la = [json.dumps(x) for x in (a or [])]
    lb = [json.dumps(x) for x in (b or [])]
  else:
    la = (a or "").split("\n") if isinstance(a, str) else [json.dumps(a)]
    lb = (b or "").split("\n") if isinstance(b, str) else [json.dumps(b)]
  for i in range(max(len(la), len(lb))):
    x = la[i] if i < len(la) else "<missing>"
    y = lb[i] if i < len(lb) else "<missing>"
    if x != y:
      return {"first_differing_line": i + 1, "a": x[:400], "b": y[:400]}
  return {"first_differing_line": None}


def compare_matrix(outs):
  """-> (per-program table {pid: {config: rec}}, diffs list, infrastructure errors)"""
  table = {}
  infra = []
  for o in outs:
    if "error" in o:
      infra.append(o)
      continue
    cfg = "seed=%s/%s" % (o["hashseed"], o["history"])
    for rec in o["results"]:
      table.setdefault(rec["id"], {})[cfg] = rec
  diffs = []
  for pid, by_cfg in sorted(table.items()):
    cfgs = sorted(by_cfg)
    ref = by_cfg[cfgs[0]]
    for c in cfgs[1:]:
      for key in OUTPUT_KEYS:
        if by_cfg[c].get(key) != ref.get(key):
          diffs.append({"program": pid, "config_a": cfgs[0], "config_b": c, "output": key,
                        "diff": first_diff(ref.get(key), by_cfg[c].get(key), key)})
          break
      if diffs and diffs[-1]["program"] == pid:
        break
  return table, diffs, infra


def k2_matrix(res, rng, tier, disagreements):
  n_prog, seeds = (25, [0, 1, 2, 3]) if tier == "quick" else (300, [0, 1, 2, 3, 4, 5, 6, 7])
  base = common.seed() * 100 + 1
  seeds = [base + s if common.seed() else s for s in seeds]   # other VERIF_SEEDs explore other hash seeds
  all_progs = {"P%03d" % i: (FAMILY[i] if i < len(FAMILY) else gen_program(rng)) for i in range(n_prog)}
  # the unrelated analyses that precede a target include modules that use typing members and TypeVars, so that
  # state surviving in the printer / loader / visitors between analyses has something to carry over
  unrelated = [prog_text(gen_program(rng, 5)) for _ in range(8)] + [prog_text(FAMILY[7]), prog_text(FAMILY[2]),
                                                                   prog_text(FAMILY[1]), prog_text(FAMILY[0])]
  rng.shuffle(unrelated)
  t0 = time.time()
  # thorough: waves of 50 programs (each wave is a complete matrix for its programs) until all 300 are done or
  # the time budget is used up; the number actually covered is what the evidence reports.
  wave, budget_s = (25, None) if tier == "quick" else (50, float(os.environ.get("C04_MATRIX_BUDGET_S", "840")))
  pids_all = sorted(all_progs)
  progs, table, diffs, n_jobs = {}, {}, [], 0
  n_cfg = len(seeds) * len(HISTORIES)
  for w in range(0, len(pids_all), wave):
    tw = time.time()
    part = {p: all_progs[p] for p in pids_all[w:w + wave]}
    jobs = matrix_jobs({p: prog_text(c) for p, c in part.items()}, unrelated, seeds, chunks_per_seed=4)
    outs = run_children(jobs)
    tab, dfs, infra = compare_matrix(outs)
    if infra:
      raise RuntimeError("replay-matrix child failed: %s" % infra[0]["error"])
    incomplete = [p for p in part if len(tab.get(p, {})) != n_cfg]
    if incomplete:
      raise RuntimeError("replay matrix incomplete for %s" % incomplete[:3])
    progs.update(part)
    table.update(tab)
    diffs += dfs
    n_jobs += len(jobs)
    if budget_s is not None and (time.time() - t0) + (time.time() - tw) > budget_s:
      break
  n_prog = len(progs)
  for d in diffs:
    d["chunks"] = progs[d["program"]]
    d["kind"] = "replay-matrix-diff"
    disagreements.append(d)
  not_canon = sorted(p for p in progs if any(r.get("canonical") is not True for r in table[p].values()
                                              if r.get("outcome") == "ok"))
  for p in not_canon[:5]:
    cfgs = sorted(table[p])
    disagreements.append({"kind": "emitted-ast-not-canonical", "program": p, "chunks": progs[p],
                          "config_a": cfgs[0], "config_b": cfgs[-1],
                          "note": "io.generate_pyi_ast returned a tree that CanonicalOrdering still changes "
                                  "(the pipeline model emits canon(...), a fixpoint by canon_idem)"})
  # "Reported errors are unique and sorted by position", on the real report of every analysis of the matrix
  for p in sorted(progs):
    for cfg, r in sorted(table[p].items()):
      errs = [tuple(e) for e in (r.get("errors") or [])]
      pos = [(e[3], e[1]) for e in errs]
      if len(set(errs)) != len(errs) or pos != sorted(pos):
        disagreements.append({"kind": "report-not-unique-or-not-sorted", "program": p, "chunks": progs[p], "config_a": cfg,
                              "config_b": cfg, "errors": [list(e) for e in errs][:12]})
        break
  recs = [table[p][sorted(table[p])[0]] for p in sorted(progs)]
  n_err = [len(r.get("errors") or []) for r in recs]
  same_line = sum(1 for r in recs if len({e[1] for e in (r.get("errors") or [])}) < len(r.get("errors") or []))
  res.cov["replay_matrix"] = {
      "label": "testing (differential replay), not proof",
      "programs": n_prog, "hash_seeds": seeds, "histories": HISTORIES, "k_unrelated": 2,
      "outputs_compared": ["pyi text", "ordered error tuples (name, line, message, file, col, method)",
                           "pickle bytes (PrepareForExport+Serialize)", "gzip pickle bytes (Save compress=True, shifted clock)"],
      "configurations_per_program": n_cfg, "analyses_recorded": sum(len(v) for v in table.values()),
      "child_processes": n_jobs, "programs_planned": len(all_progs), "programs_differing": len({d["program"] for d in diffs}),
      "all_byte_identical": not diffs, "wall_s": round(time.time() - t0, 1),
      "programs_ok": sum(1 for r in recs if r.get("outcome") == "ok"),
      "emitted_asts_not_canonical": len(not_canon),
      "errors_per_program_min_med_max": [min(n_err), sorted(n_err)[len(n_err) // 2], max(n_err)],
      "programs_with_several_errors_on_one_line": same_line,
      "programs_with_union_in_stub": sum(1 for r in recs if "Union[" in (r.get("pyi") or "") or "Optional[" in (r.get("pyi") or "")),
  }
  res.add_samples([{"replay_program": prog_text(progs["P000"])[:700],
                    "pyi_head": (recs[0].get("pyi") or "")[:300], "errors_head": (recs[0].get("errors") or [])[:3]}])
  nontrivial = {hashlib.sha1(prog_text(progs[p]).encode()).hexdigest() for p, r in zip(sorted(progs), recs)
                if r.get("outcome") == "ok" and (r.get("errors") or [])}
  return sum(len(v) for v in table.values()), nontrivial


def correspond(res, rng, tier):
  common.load_pytype()
  drv = common.ensure_driver("drv_c04")
  os.makedirs(WORK, exist_ok=True)
  disagreements = []
  e1, nt1, st1 = k1_canon(res, rng, tier, drv, disagreements)
  e2, nt2, st2 = k1_errors(res, rng, tier, drv, disagreements)
  e3, nt3 = k2_matrix(res, rng, tier, disagreements)
  res.cov["evaluations"] = e1 + e2 + e3
  res.cov["distinct_nontrivial"] = len(nt1) + len(nt2) + len(nt3)
  res.cov["exhaustive"] = False
  res.cov["distribution"] = {"canon": st1, "errors": st2,
                             "nontrivial_canon_units": len(nt1), "nontrivial_error_batches": len(nt2),
                             "nontrivial_replay_programs": len(nt3)}
  res.cov["rule"] = (
      "K1a: pytd units built directly from pytd node classes (random depth<=3 types incl. unions/generics/tuples/"
      "callables/literals/annotated, classes with nested classes/decorators/slots/dataclass+NamedTuple cases, "
      "signatures with exceptions/templates, duplicate names allowed) + 144 exhaustive permutation variants of a fixed "
      "unit; each unit and two random ~-permutations go through the real CanonicalOrderingVisitor and through the Lean "
      "driver (real _ToTuple keys supplied as ranks); outputs compared token for token; when no two different nodes tie "
      "under the real key (KeyInj, measured) the three real outputs must coincide (theorem conclusion evaluated on the real visitor); real idempotence "
      "checked. non-trivial = canonical form differs from the input. "
      "K1b: error batches added to a real ErrorLog (exhaustive sequences over 6 errors up to length 4/5, all 4-of-5 "
      "orders of incomparable tracebacks, the pathological-position witness, random batches with ties in position, "
      "None/''/suffix-related tracebacks) vs the model's unique_sorted_errors, record for record; non-trivial = "
      "something was deduplicated or more than one position. "
      "K2 (replay_matrix, testing): generated programs analysed by io.generate_pyi in subprocesses for every "
      "PYTHONHASHSEED x {fresh process, after 2 unrelated analyses, reused loader}; pyi text, ordered errors, pickle "
      "and gzip bytes must be identical per program; non-trivial = analysed ok and reports >= 1 error; distinct = "
      "distinct inputs (sha1).")
  return disagreements


# ----------------------------------------------------------------------------------------------
# W: known findings
# ----------------------------------------------------------------------------------------------
def matrix_differs(chunks, cfg_a, cfg_b, repeats=2):
  """Runs one program under two configurations (each `repeats` times, in parallel; a diff that comes from
  memory layout is not hit on every run); returns the first diff between any two of the runs, or None."""
  def parse(cfg):
    s, h = cfg.split("/")
    return int(s.split("=")[1]), h
  src = prog_text(chunks)
  rng = random.Random(12345)
  unrelated = [prog_text(gen_program(rng, 5)) for _ in range(6)]
  jobs = []
  for ci, cfg in enumerate([cfg_a, cfg_b] * repeats):
    s, h = parse(cfg)
    items = []
    if h == "after_k":
      items += [{"id": "U", "src": u, "loader": "new", "record": False} for u in unrelated[ci % 3:ci % 3 + 2]]
    if h == "reused_loader":
      items += [{"id": "U", "src": unrelated[ci % 3], "loader": "shared", "record": False}]
    items.append({"id": "P", "src": src, "loader": "shared" if h == "reused_loader" else "new", "record": True})
    jobs.append({"hashseed": s, "history": "%s#%d" % (h, ci), "clock_offset": 7777 * (ci + 1), "items": items})
  outs = run_children(jobs, max_workers=len(jobs), timeout=300)
  _, diffs, infra = compare_matrix(outs)
  if infra:
    return None
  return diffs[0] if diffs else None


def witnesses(res):
  known, fixed = common.known_findings("C04")
  res.cov["witnesses_replayed"] = len(known) + len(fixed)
  for w in known:
    wit = w["witness"]
    d = matrix_differs(wit["chunks"], wit["config_a"], wit["config_b"])
    if d is not None:
      res.known_lines.append(w["what"])
  for w in fixed:
    wit = w["witness"]
    d = matrix_differs(wit["chunks"], wit["config_a"], wit["config_b"])
    if d is not None:
      res.violation("fixed-witness-fails-again", {"property": "C04", "id": w.get("id"), "diff": d, "witness": wit})


# ----------------------------------------------------------------------------------------------
# S: the property's oracle on the real code
# ----------------------------------------------------------------------------------------------
def real_ties(c):
  kt = KeyTable()
  kt.unit(c)
  return kt.ties_nonidentical


def canon_oracle(u, rng, tries=6):
  """Permutation invariance + idempotence of the REAL visitor on unit u; returns a failure dict or None."""
  c = real_canon(u)
  if real_ties(c):
    return None            # ties between different nodes: outside the theorem's hypothesis
  ec = J(e_unit(c))
  if J(e_unit(real_canon(c))) != ec:
    return {"what": "real CanonicalOrdering is not idempotent", "unit": J(e_unit(u)), "canon": ec}
  for _ in range(tries):
    v = Permuter(rng).unit(u)
    ev = J(e_unit(real_canon(v)))
    if ev != ec:
      return {"what": "real CanonicalOrdering depends on the order of a collection it is meant to sort",
              "unit_a": J(e_unit(u)), "unit_b": J(e_unit(v)), "canon_a": ec, "canon_b": ev,
              "pyi_a": _print(c), "pyi_b": _print(real_canon(v))}
  return None


def _print(u):
  try:
    from pytype.pytd import pytd_utils
    return pytd_utils.Print(u)[:1500]
  except Exception as e:  # pylint: disable=broad-except
    return "unprintable: %r" % e


def shrink_unit(u, rng):
  """Drops top-level declarations while the oracle keeps failing."""
  from pytype.pytd import pytd as P
  items = ([("constants", x) for x in u.constants] + [("type_params", x) for x in u.type_params]
           + [("classes", x) for x in u.classes] + [("functions", x) for x in u.functions]
           + [("aliases", x) for x in u.aliases])

  def build(its):
    d = {k: [] for k in ("constants", "type_params", "classes", "functions", "aliases")}
    for k, x in its:
      d[k].append(x)
    return P.TypeDeclUnit(u.name, tuple(d["constants"]), tuple(d["type_params"]), tuple(d["classes"]),
                          tuple(d["functions"]), tuple(d["aliases"]))
  small = common.ddmin(items, lambda its: canon_oracle(build(its), random.Random(1), tries=12) is not None, budget_s=20.0)
  return build(small)


def search(res, rng, disagreements, pfail):
  common.load_pytype()
  found = []
  # 1) replay-matrix diffs are failing inputs by themselves: confirm, then shrink by statement removal
  for n_d, d in enumerate([x for x in disagreements if x.get("kind") == "replay-matrix-diff"][:2]):
    chunks = list(d["chunks"])
    a, b = d["config_a"], d["config_b"]
    again = matrix_differs(chunks, a, b)
    entry = {"what": "same source and options, different output across the replay matrix",
             "config_a": a, "config_b": b, "output": d["output"], "first_diff": d["diff"], "program": prog_text(chunks)}
    if again is not None and n_d == 0:
      small = common.ddmin(chunks, lambda cs: matrix_differs(cs, a, b) is not None, budget_s=100.0)
      d2 = matrix_differs(small, a, b)
      if d2 is not None:
        entry.update({"program": prog_text(small), "output": d2["output"], "first_diff": d2["diff"],
                      "shrunk_from_chunks": len(chunks), "shrunk_to_chunks": len(small)})
      entry["reproduced_on_rerun"] = True
    elif again is not None:
      entry["reproduced_on_rerun"] = True
    else:
      entry["reproduced_on_rerun"] = False   # e.g. depends on the wall clock / on more history than the pair replay has
    found.append(entry)
  # 1b) the emitted tree is not canonical: look for an observable order dependence on that program
  if not found:
    for d in [x for x in disagreements if x.get("kind") == "emitted-ast-not-canonical"][:2]:
      for a, b in [(d["config_a"], d["config_b"]), ("seed=1/after_k", "seed=2/fresh"), ("seed=3/reused_loader", "seed=4/after_k")]:
        dd = matrix_differs(d["chunks"], a, b, repeats=3)
        if dd is not None:
          found.append({"what": "same source and options, different output (emitted tree is not canonically ordered)",
                        "config_a": a, "config_b": b, "output": dd["output"], "first_diff": dd["diff"],
                        "program": prog_text(d["chunks"])})
          break
      if found:
        break
  # 2) canonical ordering: oracle on the real visitor around the disagreeing inputs, then fresh inputs
  if any(x.get("kind", "").startswith(("canon", "real-canon")) for x in disagreements) or pfail:
    gen = UnitGen(rng)
    t0 = time.time()
    cands = exhaustive_variants()[:8] + [gen.unit() for _ in range(400)]
    for u in cands:
      if time.time() - t0 > 60 or len(found) >= 3:
        break
      try:
        f = canon_oracle(u, rng)
      except NotInFragment:
        continue
      if f:
        try:
          su = shrink_unit(u, rng)
          f = canon_oracle(su, random.Random(1), tries=12) or f
        except Exception:  # pylint: disable=broad-except
          pass
        found.append(f)
        break
  # 3) error report: oracle on the real ErrorLog
  if any(x.get("kind", "").startswith(("errors", "model-report")) for x in disagreements) or pfail:
    cands = [x["batch"] for x in disagreements if x.get("kind") == "errors-model-vs-real"]
    for i in range(1500):
      files = rng.choice([["f.py"], ["f.py"], [None, "f.py"], ["b.py", "a.py"]])
      cands.append([gen_err(rng, files, rng.choice([[1, 2, 3], [5], list(range(1, 9))])) for _ in range(rng.choice([2, 3, 5, 8]))])
    for b in cands:
      why = errors_oracle(b, rng)
      if why:
        small = common.ddmin(b, lambda bb: errors_oracle(bb, random.Random(3)) is not None, budget_s=15.0)
        why2 = errors_oracle(small, random.Random(3)) or why
        found.append({"what": why2, "errors_added_in_this_order": small, "real_report": real_report(small)})
        break
  return found


def replay(path):
  """./check C04 --replay FILE: re-evaluates the property's oracle on the failing input stored in FILE."""
  common.load_pytype()
  inp = json.load(open(path)).get("input", {})
  still = None
  if "program" in inp and "config_a" in inp:
    chunks = [inp["program"]]
    d = matrix_differs(chunks, inp["config_a"], inp["config_b"], repeats=3)
    still = None if d is None else {"output": d["output"], "first_diff": d["diff"]}
  elif "errors_added_in_this_order" in inp:
    still = errors_oracle(inp["errors_added_in_this_order"], random.Random(3))
  if still:
    print("replayed input still fails: %s" % (json.dumps(still)[:600],))
    print("VIOLATION property=C04 replay=%s" % path)
    return 1
  print("REPLAY-OK property=C04 the stored input no longer fails (%s)" % path)
  return 0


def main():
  try:
    if os.environ.get("VERIF_REPLAY"):
      return replay(os.environ["VERIF_REPLAY"])
    return _main()
  except (RuntimeError, OSError, subprocess.SubprocessError) as e:   # infrastructure trouble is never a VIOLATION
    print("ERROR property=C04 infrastructure: %s" % (str(e)[:500],))
    return 2


def _main():
  return common.run_check(
      "C04", REQUIRED, correspond, witnesses, search,
      trusted=[
          "hand-written models of CanonicalOrderingVisitor (generic in the sort key) and of ErrorLog._sorted_errors/"
          "unique_sorted_errors/_compare_traceback_strings; tied to /repo by K1",
          "the sort keys in K1 are the real Node._ToTuple values, passed to the model as ranks; the model does not "
          "re-implement repr/str (key injectivity is a hypothesis of canon_perm, measured per case)",
          "PARTIAL: no theorem covers the VM (hash seed, id()-ordering, caches, loader reuse); that clause is "
          "exercised only by the replay matrix (testing) over the generated programs, seeds and histories listed in "
          "coverage.replay_matrix",
          "printer and msgpack encoder are treated as arbitrary functions of the canonical tree (pipeline_pure); "
          "their own determinism is what the replay matrix observes",
      ],
      assumptions=[
          "UnionType members are flat (constructor invariant) for canon_idem",
          "errors_sorted: equal unique representation implies equal (file, line) (repKeyOK; holds within one file)",
          "one analysis = one source file; generated programs import only builtins and typing (typeshed absent)",
      ])


if __name__ == "__main__":
  sys.exit(main())
