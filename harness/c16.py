"""C16 — every compiled code object becomes a well-formed ordered block graph (DESIGN.md §5 C16).

prepare: translate/opcode_table.py regenerates lean/PytypeModel/Generated/OpcodeTable.lean from
         $PYTYPE_REPO/pytype/pyc/opcodes.py (rewritten only when the content changes).
P: lake build PytypeModel.Props.C16 + axiom audit (theorems in REQUIRED).
K: (1) every code object of generated programs and of CPython 3.12 standard-library files: the real
       blocks.process_code result (op records, block list handed to order_nodes, outgoing sets, order) is
       compared exactly with drv_c16's result computed from the raw `(offset, opcode)` items captured at
       opcodes._make_opcode_list (i.e. after the real _add_setup_except) + the exception table;
       the theorems' decidable premises are evaluated by the driver on every stream;
   (2) the same functions called directly on synthetic streams the compiler never emits (exhaustive small +
       random; incl. 3.11 elision, error kinds), and cfg_utils.order_nodes / compute_predecessors on
       random graphs.
W: known finding c16-end-async-for-duplicated replayed with the property's oracle.
S: the property's clauses checked directly on the real objects, shrinking the source by statement removal.
"""
import ast
import collections
import hashlib
import multiprocessing
import os
import random
import resource
import signal
import subprocess
import sys
import sysconfig
import time
import traceback
import warnings

from harness import common

REQUIRED = [
    "opcode_list_wf", "opcode_list_targets",
    "split_partition", "split_targets_start_blocks", "split_no_send_total",
    "surgery_partition_partial", "surgery_partition_not_full",
    "order_sound", "order_fuel_sufficient", "predecessors_correct", "order_assert_never_fires",
    "pop_block_targets_are_targets",
    "table_covers_python312", "table_flag_methods_consistent", "table_block_facts",
    "try_ranges_closed_partial", "kept_starts_distinct", "try_ranges_closed",
]

NPROC = min(16, os.cpu_count() or 4)
warnings.simplefilter("ignore", SyntaxWarning)
DRV = os.path.join(common.LEAN_DIR, ".lake", "build", "bin", "drv_c16")


# ----------------------------------------------------------------------------------------------
# prepare
# ----------------------------------------------------------------------------------------------
def prepare():
  """Regenerates the opcode table from the repo under test (in a subprocess: clean import state)."""
  env = dict(os.environ, PYTYPE_REPO=common.REPO)
  r = subprocess.run([common.PY, os.path.join(common.VERIF, "translate", "opcode_table.py")], env=env,
                     stdout=subprocess.PIPE, stderr=subprocess.STDOUT, text=True)
  if r.returncode != 0:
    raise RuntimeError("translate/opcode_table.py failed:\n" + r.stdout[-3000:])


# ----------------------------------------------------------------------------------------------
# observing the real code
# ----------------------------------------------------------------------------------------------
_PT = {}


def pt():
  """Lazily imports the real modules (per process)."""
  if not _PT:
    common.load_pytype()
    from pytype.pyc import pyc, opcodes
    from pytype.blocks import blocks
    from pytype.typegraph import cfg_utils
    import pycnite.types
    _PT.update(pyc=pyc, opcodes=opcodes, blocks=blocks, cfg_utils=cfg_utils, ptypes=pycnite.types)
  return _PT


class Capture:
  """Records, for every code object handled by blocks.process_code, the input of _make_opcode_list (raw
  items after the real _add_setup_except), the exception table, the op list, the block list handed to
  order_nodes and its result.  Pure observation through module-level entry points."""

  def __init__(self):
    self.caps = []
    self.cur = {}

  def __enter__(self):
    m = pt()
    opc, cfgu = m["opcodes"], m["cfg_utils"]
    self.o_bo, self.o_mol, self.o_on = opc.build_opcodes, opc._make_opcode_list, cfgu.order_nodes
    self.o_ase = opc._add_setup_except
    cap = self

    def add_setup_except(offset_to_op, exc_table):
      # input of the model of _add_setup_except: the items as _make_opcodes left them + the full table
      cap.cur["pre"] = [(off, op.__class__.__name__, getattr(op, "argval", None) if op.has_known_jump() else None,
                         op.line) for off, op in sorted(offset_to_op.items())]
      cap.cur["table"] = [(e.start, e.end, e.target, bool(e.lasti)) for e in exc_table.entries]
      try:
        return cap.o_ase(offset_to_op, exc_table)
      finally:
        by_id = {id(op): off for off, op in offset_to_op.items()}
        cap.cur["post"] = [(off, op.__class__.__name__, getattr(op, "argval", None) if op.has_known_jump() else None,
                            by_id.get(id(op.target)) if getattr(op, "target", None) is not None else None,
                            bool(getattr(op, "push_exc_block", False)), bool(getattr(op, "pop_exc_block", False)))
                           for off, op in sorted(offset_to_op.items())]

    def build_opcodes(dis_code):
      cap.cur = {"entries": [(e.start, e.target) for e in dis_code.exception_table.entries],
                 "name": dis_code.code.co_name, "ver": tuple(dis_code.python_version)}
      return cap.o_bo(dis_code)

    def make_opcode_list(offset_to_op, python_version):
      items = sorted(offset_to_op.items())
      by_id = {id(op): off for off, op in items}
      cap.cur["raw"] = [(off, op.__class__.__name__,
                         getattr(op, "argval", None) if op.has_known_jump() else None,
                         by_id.get(id(op.target)) if op.target is not None else None,
                         bool(op.push_exc_block), op.target is not None) for off, op in items]
      r = cap.o_mol(offset_to_op, python_version)
      cap.cur["ops"] = r[0]
      return r

    def order_nodes(nodes):
      cap.cur["nodes"] = list(nodes)
      r = cap.o_on(nodes)
      cap.cur["order"] = list(r)
      cap.caps.append(cap.cur)
      cap.cur = {}
      return r
    opc.build_opcodes, opc._make_opcode_list, cfgu.order_nodes = build_opcodes, make_opcode_list, order_nodes
    opc._add_setup_except = add_setup_except
    return self

  def __exit__(self, *a):
    m = pt()
    m["opcodes"].build_opcodes, m["opcodes"]._make_opcode_list = self.o_bo, self.o_mol
    m["cfg_utils"].order_nodes = self.o_on
    m["opcodes"]._add_setup_except = self.o_ase
    return False


class RealCodeTimeout(Exception):
  pass


class time_limit:
  """CPU-time limit (ITIMER_VIRTUAL: immune to machine load) for calls into the real, pure Python code: a
  loop that no longer terminates must become a reported failing input, not a hung check."""

  def __init__(self, seconds):
    self.seconds = seconds

  def _raise(self, *_):
    raise RealCodeTimeout("no result within %d s of CPU time" % self.seconds)

  def __enter__(self):
    self.old = signal.signal(signal.SIGVTALRM, self._raise)
    signal.setitimer(signal.ITIMER_VIRTUAL, self.seconds)

  def __exit__(self, *a):
    signal.setitimer(signal.ITIMER_VIRTUAL, 0)
    signal.signal(signal.SIGVTALRM, self.old)
    return False


REAL_LIMIT_S = 10          # CPU seconds per source (the largest stdlib file needs ~2)
MEM_LIMIT = 6 << 30        # address-space cap of a worker: a runaway list becomes a MemoryError


def _worker_init():
  try:
    resource.setrlimit(resource.RLIMIT_AS, (MEM_LIMIT, MEM_LIMIT))
  except (ValueError, OSError):
    pass


def process_source(src, filename):
  """compile_src + process_code on the real code; returns (OrderedCode, captures)."""
  m = pt()
  code = m["pyc"].compile_src(src, filename, (3, 12), None, mode="exec")
  with Capture() as cap:
    with time_limit(REAL_LIMIT_S):
      oc, _ = m["blocks"].process_code(code)
  return oc, cap.caps


def opt(x):
  return "-" if x is None else str(x)


def dbl(off):
  """offsets are doubled so that the synthetic x.5 entries become odd integers"""
  d = off * 2
  assert d == int(d)
  return int(d)


def driver_line(raw, entries, ver_minor, with_pop, cls_index):
  f = ["P", str(ver_minor), "1" if with_pop else "0", str(len(raw)), str(len(entries))]
  for off, name, argval, pre, push, _has_t in raw:
    av = 0
    if argval is not None and isinstance(argval, int) and argval >= 0:
      av = dbl(argval)
    elif argval is not None:
      av = 999999999   # not an offset: never a key of offset_to_index
    f += [str(dbl(off)), str(cls_index[name]), str(av), str(0 if pre is None else dbl(pre) + 1), "1" if push else "0"]
  for s, t in entries:
    f += [str(dbl(s)), str(dbl(t))]
  return " ".join(f)


def x_line(pre, table, cls_index):
  """`X` command of drv_c16: opcodes._add_setup_except on (items of offset_to_op, exception table)"""
  f = ["X", str(len(pre)), str(len(table))]
  for off, name, argval, line in pre:
    av = argval if isinstance(argval, int) and argval >= 0 else 0
    f += [str(off), str(cls_index[name]), str(av), str(line or 0)]
  for s_, e_, t_, l_ in table:
    f += [str(s_), str(e_), str(t_), "1" if l_ else "0"]
  return " ".join(f)


def x_expected(post, cls_index):
  out = []
  for off, name, argval, pre, push, pop in post:
    av = argval if isinstance(argval, int) and argval >= 0 else 0
    out.append("%d:%d:%d:%s:%d:%d" % (dbl(off), cls_index[name], av, "-" if pre is None else str(dbl(pre)),
                                      1 if push else 0, 1 if pop else 0))
  return "ok " + " ".join(out)


def real_result(ops, nodes, order):
  """Same canonical text as drv_c16's showResult."""
  ops_s = " ".join("%d:%s:%s:%s:%s:%s" % (
      op.index, opt(op.next.index if op.next is not None else None),
      opt(op.prev.index if op.prev is not None else None),
      opt(op.target.index if op.target is not None else None),
      opt(op.block_target.index if op.block_target is not None else None),
      opt(op.end_async_for_target.index if op.end_async_for_target is not None else None)) for op in ops)
  blocks_s = " ".join("%d:%s>%s" % (b.id, ",".join(str(o.index) for o in b.code),
                                    ",".join(str(i) for i in sorted({x.id for x in b.outgoing}))) for b in nodes)
  return "ok|%s|%s|%s" % (ops_s, blocks_s, " ".join(str(b.id) for b in order))


def run_driver(lines):
  if not lines:
    return []
  r = subprocess.run([DRV], input="\n".join(lines) + "\n", stdout=subprocess.PIPE, stderr=subprocess.PIPE,
                     text=True, timeout=3000)
  if r.returncode != 0:
    raise RuntimeError("drv_c16 failed: " + r.stderr[-2000:])
  out = r.stdout.split("\n")
  return out[:-1] if out and out[-1] == "" else out


def class_index():
  names = run_driver(["names"])[0].split(" ")
  return {n: i for i, n in enumerate(names)}


def parse_premises(s):
  d = {}
  for kv in s.split(" "):
    if "=" in kv:
      k, v = kv.split("=", 1)
      d[k] = int(v)
  return d


# ----------------------------------------------------------------------------------------------
# the property's own oracle on the real objects (S, W)
# ----------------------------------------------------------------------------------------------
CPY_NO_FALLTHROUGH = {"RETURN_VALUE", "RETURN_CONST", "RAISE_VARARGS", "RERAISE", "JUMP_FORWARD",
                      "JUMP_BACKWARD", "JUMP_BACKWARD_NO_INTERRUPT"}


def cpython_jump_names():
  import opcode
  return {n for n, c in opcode.opmap.items() if c in opcode.hasjrel or c in opcode.hasjabs}


def oracle(cap, known_dup_ok=False):
  """Clauses of C16 evaluated directly on what the real code built for one code object.
  Returns a list of failure strings (empty = all clauses hold)."""
  f = []
  ops, nodes, order = cap["ops"], cap["nodes"], cap["order"]
  jumps = cpython_jump_names()
  n = len(ops)
  # (4) indices and next/prev links are consistent
  for i, op in enumerate(ops):
    if op.index != i:
      f.append("index: ops[%d].index=%r" % (i, op.index))
    if op.next is not (ops[i + 1] if i + 1 < n else None):
      f.append("next link broken at %d" % i)
    if op.prev is not (ops[i - 1] if i else None):
      f.append("prev link broken at %d" % i)
  # (3) every jump (as CPython defines jumps) has a resolved target inside the stream
  for i, op in enumerate(ops):
    is_jump = op.__class__.__name__ in jumps or op.__class__.__name__ == "SETUP_EXCEPT_311"
    if is_jump and op.target is None:
      f.append("unresolved jump %s at %d" % (op.__class__.__name__, i))
    if op.target is not None and not (0 <= op.target.index < n and ops[op.target.index] is op.target):
      f.append("target of %d is not an instruction of the stream" % i)
  # (1) partition: non-empty blocks, each analysed instruction in exactly one block
  cnt = collections.Counter()
  where = {}
  for bi, b in enumerate(nodes):
    if not b.code:
      f.append("empty block %r" % b.id)
    for op in b.code:
      cnt[op.index] += 1
      where.setdefault(op.index, []).append(bi)
      if not (0 <= op.index < n and ops[op.index] is op):
        f.append("block %r contains a foreign op" % b.id)
  dups = sorted(i for i, c in cnt.items() if c > 1)
  if dups:
    # the characterised known finding: an END_ASYNC_FOR block merged into >= 2 JUMP_BACKWARD blocks
    eaft = collections.Counter(op.end_async_for_target.index for op in ops if op.end_async_for_target is not None)
    shared = set()
    for t, c in eaft.items():
      if c >= 2:
        # the whole original block of the END_ASYNC_FOR target is copied
        j = t
        while True:
          shared.add(j)
          o = ops[j]
          if (o.no_next() or o.does_jump() or o.pops_block() or o.next is None):
            break
          j += 1
    unexplained = [i for i in dups if i not in shared]
    if unexplained or not known_dup_ok:
      f.append("op in more than one block: %s" % (unexplained or dups)[:6])
  removed = [op for op in ops if op.index not in cnt]
  for op in removed:
    nm = op.__class__.__name__
    if nm not in ("JUMP_BACKWARD", "CLEANUP_THROW"):
      f.append("instruction %d %s is in no block" % (op.index, nm))
  ids = [b.id for b in nodes]
  if len(set(ids)) != len(ids):
    f.append("duplicate block ids")
  for b in nodes:
    if b.code and b.id != b.code[0].index and b.id not in [o.index for o in removed]:
      f.append("block id %r is not the index of its first op" % b.id)
  # (2) every resolved jump target of an analysed instruction starts a block
  firsts = {b.code[0].index for b in nodes if b.code}
  for b in nodes:
    for op in b.code:
      if op.target is not None and op.target.index not in firsts:
        f.append("jump target %d (%s) of op %d does not start a block" % (
            op.target.index, op.target.__class__.__name__, op.index))
      if op.block_target is not None and op.block_target.index not in firsts:
        f.append("block_target %d of op %d does not start a block" % (op.block_target.index, op.index))
  # control flow as CPython defines it is represented by edges (fall-through / jump of the last op)
  first_to_block = {}
  for b in nodes:
    if b.code:
      first_to_block[b.code[0].index] = b
  merged = {b for b in nodes if b.code and b.id != b.code[0].index}
  for bi, b in enumerate(nodes):
    if not b.code:
      continue
    last = b.code[-1]
    nm = last.__class__.__name__
    if nm not in CPY_NO_FALLTHROUGH and last.index + 1 < n:
      nxt = ops[last.index + 1]
      if nxt.index in first_to_block and first_to_block[nxt.index] not in b.outgoing and nxt.index in cnt:
        # merged END_ASYNC_FOR copies fall through to the block after the original one
        f.append("fall-through %d -> %d has no edge" % (last.index, nxt.index))
    if nm in jumps and last.target is not None and last.target.index in first_to_block:
      if first_to_block[last.target.index] not in b.outgoing and b not in merged:
        f.append("jump %d -> %d has no edge" % (last.index, last.target.index))
  for b in nodes:
    for x in b.outgoing:
      if x not in nodes:
        f.append("edge from %r to a block outside the graph" % b.id)
  # basic blocks: control leaves a block only at its last instruction (Block docstring); the one place the
  # code deliberately does not cut is the yield_value_block that follows a lone SEND block
  for bi, b in enumerate(nodes):
    in_yv = bi > 0 and len(nodes[bi - 1].code) == 1 and nodes[bi - 1].code[0].__class__.__name__ == "SEND"
    if in_yv:
      continue
    for op in b.code[:-1]:
      nm = op.__class__.__name__
      if nm in jumps or nm in CPY_NO_FALLTHROUGH or op.block_target is not None:
        f.append("op %d %s transfers control but is not the last op of its block" % (op.index, nm))
  # no fall-through edge out of an instruction that never falls through
  for bi, b in enumerate(nodes):
    if not b.code or b in merged or bi + 1 >= len(nodes):
      continue
    last, first = b.code[-1], b.code[0]
    if last.__class__.__name__ in CPY_NO_FALLTHROUGH and nodes[bi + 1] in b.outgoing:
      nb = nodes[bi + 1]
      legit = [t for t in (last.target, last.block_target, first.target) if t is not None]
      sendish = len(nb.code) == 1 and nb.code[0].__class__.__name__ == "SEND"
      if not any(nb.code and t is nb.code[0] for t in legit) and not sendish:
        f.append("fall-through edge %r -> %r after %s" % (b.id, nb.id, last.__class__.__name__))
  # (5) order = blocks reachable from the entry, once each, a predecessor before each non-entry block
  if nodes:
    reach, st = set(), [nodes[0]]
    while st:
      b = st.pop()
      if b in reach:
        continue
      reach.add(b)
      st.extend(b.outgoing)
    if len(order) != len(set(order)):
      f.append("order lists a block twice")
    if set(order) != reach:
      f.append("order != set of blocks reachable from the entry (order %d, reachable %d)" % (len(set(order)), len(reach)))
    seen = set()
    for k, b in enumerate(order):
      if k and not (b.incoming & seen):
        f.append("block %r is ordered before all of its predecessors" % b.id)
      seen.add(b)
    if order and order[0] is not nodes[0]:
      f.append("order does not start at the entry block")
  return f


def oracle_source(src, filename="<c16>", known_dup_ok=True):
  """All clause failures over all code objects of a source (crash = failure)."""
  try:
    _, caps = process_source(src, filename)
  except SyntaxError:
    return None
  except Exception as e:   # pylint: disable=broad-except
    if e.__class__.__name__ == "CompileError":
      return None
    return ["process_code raised %s: %s" % (e.__class__.__name__, str(e)[:200])]
  out = []
  for cap in caps:
    for x in oracle(cap, known_dup_ok=known_dup_ok):
      out.append("%s: %s" % (cap["name"], x))
  return out


# ----------------------------------------------------------------------------------------------
# program generator
# ----------------------------------------------------------------------------------------------
class ProgGen:
  """Random programs over loops, try/except/finally, with, async for/with, yield/yield from, match,
  comprehensions, nested defs/lambdas/classes.  Only builtins are referenced."""

  NAMES = ["a", "b", "c", "x", "y", "z", "n", "it"]

  def __init__(self, rng):
    self.r = rng
    self.fn = 0

  def name(self):
    return self.r.choice(self.NAMES)

  def expr(self, d, ctx):
    r = self.r
    k = r.random()
    if d <= 0 or k < 0.25:
      return r.choice([self.name(), str(r.randrange(10)), "None", "'s'", "True", self.name()])
    d -= 1
    c = r.randrange(17)
    if c == 0:
      return "%s %s %s" % (self.expr(d, ctx), r.choice(["+", "-", "*", "//", "%", "|"]), self.expr(d, ctx))
    if c == 1:
      return "(%s %s %s)" % (self.expr(d, ctx), r.choice(["and", "or"]), self.expr(d, ctx))
    if c == 2:
      return "(%s if %s else %s)" % (self.expr(d, ctx), self.expr(d, ctx), self.expr(d, ctx))
    if c == 3:
      return "%s(%s)" % (r.choice(["f", "g", "len", "print", "range"]), self.expr(d, ctx))
    if c == 4:
      return "%s %s %s" % (self.expr(d, ctx), r.choice(["<", "==", "is", "in", "is not", "not in"]), self.expr(d, ctx))
    if c == 5:
      return "(lambda %s: %s)" % (self.name(), self.expr(d, dict(ctx, fn=True, gen=False, asyn=False, loop=False)))
    if c == 6:
      kind = r.choice(["[%s]", "{%s}", "(%s)", "{1: %s}"])
      asyn = "async " if ctx.get("asyn") and r.random() < 0.4 else ""
      ctx = dict(ctx, comp=True)
      it0 = self.expr(d, ctx)
      cond = (" if " + self.expr(d, ctx)) if r.random() < 0.5 else ""
      second = (" for %s in %s" % (self.name(), self.expr(d, ctx))) if r.random() < 0.25 else ""
      body = self.expr(d, ctx)
      if kind == "{1: %s}":
        return "{%s: %s %sfor %s in %s%s%s}" % (self.name(), body, asyn, self.name(), it0, second, cond)
      return kind % ("%s %sfor %s in %s%s%s" % (body, asyn, self.name(), it0, second, cond))
    if c == 7 and ctx.get("asyn"):
      return "(await %s)" % self.expr(d, ctx)
    if c == 8 and ctx.get("fn") and ctx.get("gen") and not ctx.get("nocontrol") and not ctx.get("comp"):
      return "(yield %s)" % self.expr(d, ctx)
    if c == 9 and not ctx.get("comp"):
      return "(%s := %s)" % (self.name(), self.expr(d, ctx))
    if c == 10:
      return "f'{%s}-{%s!r}'" % (self.name(), self.name())
    if c == 11:
      return "%s[%s]" % (self.name(), self.expr(d, ctx))
    if c == 12:
      return "%s.%s" % (self.name(), r.choice(["attr", "m()", "p"]))
    if c == 13:
      return "(not %s)" % self.expr(d, ctx)
    if c == 14:
      return "%s < %s <= %s" % (self.expr(d, ctx), self.expr(d, ctx), self.expr(d, ctx))
    if c == 15:
      return "[%s, *%s]" % (self.expr(d, ctx), self.name())
    return "%s(%s, k=%s, *%s)" % (self.name(), self.expr(d, ctx), self.expr(d, ctx), self.name())

  def block(self, d, ctx, ind, lo=1, hi=3):
    out = []
    for _ in range(self.r.randint(lo, hi)):
      out += self.stmt(d, ctx, ind)
    return out or [ind + "pass"]

  def pattern(self):
    r = self.r
    return r.choice(["1", "'s'", "None", "[p, q]", "[p, *rest]", "{'k': v}", "C(u=1)", "int(w)", "1 | 2",
                     "[1, 2] as pr", "(p, q) if p", "str() | bytes()", "{'k': [e, _]}", "_ if g()"])

  def stmt(self, d, ctx, ind):
    r = self.r
    e = lambda: self.expr(2, ctx)
    if d <= 0:
      c = r.randrange(6)
    else:
      c = r.randrange(34)
    i2 = ind + "  "
    sub = d - 1
    if c == 0:
      return [ind + "%s = %s" % (self.name(), e())]
    if c == 1:
      return [ind + "%s += %s" % (self.name(), e())]
    if c == 2:
      return [ind + "f(%s)" % e()]
    if c == 3:
      if ctx.get("loop") and not ctx.get("nocontrol"):
        return [ind + r.choice(["break", "continue"])]
      return [ind + "pass"]
    if c == 4:
      if ctx.get("fn") and not ctx.get("nocontrol"):
        if ctx.get("asyn") and ctx.get("gen"):
          return [ind + "return"]
        return [ind + r.choice(["return", "return " + e()])]
      return [ind + "%s, %s = %s" % (self.name(), self.name(), e())]
    if c == 5:
      return [ind + r.choice(["raise", "raise E(%s)" % self.name(), "assert %s, 'm'" % e(), "del " + self.name(),
                              "raise E from %s" % self.name()])]
    if c in (6, 7, 8):
      out = [ind + "if %s:" % e()] + self.block(sub, ctx, i2)
      for _ in range(r.choice([0, 0, 1, 2])):
        out += [ind + "elif %s:" % e()] + self.block(sub, ctx, i2)
      if r.random() < 0.5:
        out += [ind + "else:"] + self.block(sub, ctx, i2)
      return out
    if c in (9, 10):
      out = [ind + "while %s:" % r.choice([e(), "True", "1", self.name()])] + self.block(sub, dict(ctx, loop=True), i2)
      if r.random() < 0.3:
        out += [ind + "else:"] + self.block(sub, ctx, i2)
      return out
    if c in (11, 12, 13):
      asyn = "async " if ctx.get("asyn") and r.random() < 0.6 else ""
      tgt = r.choice([self.name(), "%s, %s" % (self.name(), self.name())])
      out = [ind + "%sfor %s in %s:" % (asyn, tgt, e())] + self.block(sub, dict(ctx, loop=True), i2)
      if r.random() < 0.3:
        out += [ind + "else:"] + self.block(sub, ctx, i2)
      return out
    if c in (14, 15, 16, 17):
      star = r.random() < 0.08
      out = [ind + "try:"] + self.block(sub, ctx, i2)
      shape = r.randrange(4)
      hctx = dict(ctx, nocontrol=True) if star else ctx
      if shape in (0, 1, 2):
        for _ in range(r.choice([1, 1, 2])):
          h = r.choice(["except%s E:", "except%s (E, F) as ex:", "except%s E as ex:"]) % ("*" if star else "")
          if not star and r.random() < 0.2:
            h = "except:"
          out += [ind + h] + self.block(sub, hctx, i2)
          if h == "except:":
            break
        if shape == 1:
          out += [ind + "else:"] + self.block(sub, ctx, i2)
      if shape in (2, 3):
        out += [ind + "finally:"] + self.block(sub, ctx, i2)
      return out
    if c in (18, 19):
      asyn = "async " if ctx.get("asyn") and r.random() < 0.6 else ""
      items = ", ".join(r.choice(["%s as %s" % (e(), self.name()), "%s" % e()]) for _ in range(r.choice([1, 1, 2])))
      return [ind + "%swith %s:" % (asyn, items)] + self.block(sub, ctx, i2)
    if c == 20:
      out = [ind + "match %s:" % e()]
      for _ in range(r.randint(1, 3)):
        out += [i2 + "case %s:" % self.pattern()] + self.block(sub, ctx, i2 + "  ")
      if r.random() < 0.5:
        out += [i2 + "case %s:" % r.choice(["_", "other"])] + self.block(sub, ctx, i2 + "  ")
      return out
    if c in (21, 22, 23):
      self.fn += 1
      asyn = r.random() < 0.45
      gen = r.random() < 0.4
      nctx = dict(fn=True, asyn=asyn, gen=gen, loop=False)
      args = r.choice(["", "x", "x, y=1", "*a, **k", "x, /, y, *, z=2"])
      deco = [ind + "@d"] if r.random() < 0.15 else []
      body = self.block(sub, nctx, i2, 1, 4)
      if gen:
        yl = r.choice(["yield " + self.name(), "yield", "%s = yield %s" % (self.name(), self.name())])
        if not asyn and r.random() < 0.5:
          yl = r.choice(["yield from " + self.name(), "%s = yield from g(%s)" % (self.name(), self.name())])
        pos = [k for k, l in enumerate(body) if l.startswith(i2) and not l.startswith(i2 + " ") and
               not (k and body[k - 1].strip().startswith("@")) and
               l.strip().split(" ")[0].rstrip(":") not in ("elif", "else", "except", "except*", "finally", "case")]
        body.insert(r.choice(pos + [len(body)]), i2 + yl)
      return deco + [ind + "%sdef fn%d(%s):" % ("async " if asyn else "", self.fn, args)] + body
    if c == 24:
      self.fn += 1
      return [ind + "class K%d(%s):" % (self.fn, r.choice(["", "B", "B, metaclass=M"]))] + \
          self.block(sub, dict(fn=False, asyn=False, gen=False, loop=False), i2)
    if c == 25 and ctx.get("asyn"):
      return [ind + r.choice(["await %s" % e(), "%s = await f(%s)" % (self.name(), self.name())])]
    if c == 26 and ctx.get("fn") and ctx.get("gen") and not ctx.get("nocontrol"):
      if ctx.get("asyn"):
        return [ind + "yield " + e()]
      return [ind + r.choice(["yield " + e(), "yield from " + e(), "%s = yield" % self.name()])]
    if c == 27:
      return [ind + "%s = lambda %s: %s" % (self.name(), self.name(),
                                            self.expr(2, dict(fn=True, gen=False, asyn=False, loop=False)))]
    if c == 28:
      ec = lambda: self.expr(2, dict(ctx, comp=True))
      return [ind + "%s = [%s for %s in %s if %s]" % (self.name(), ec(), self.name(), ec(), ec())]
    if c == 29:
      return [ind + "%s: int = %s" % (self.name(), e())]
    if c == 30:
      return [ind + "x.y = %s" % e()]
    if c == 31:
      return [ind + "import os.path as %s" % self.name()]
    if c == 32:
      return [ind + "%s[%s] = %s" % (self.name(), e(), e())]
    return [ind + "print(%s, %s)" % (e(), e())]

  def program(self):
    self.fn = 0
    ctx = dict(fn=False, asyn=False, gen=False, loop=False)
    lines = []
    for _ in range(self.r.randint(2, 5)):
      lines += self.stmt(self.r.choice([2, 2, 3, 3, 4]), ctx, "")
    return "\n".join(lines) + "\n"


ASYNC_SEEDS = [
    "async def f(x):\n  async for a in x:\n    if a: continue\n    g(a)\n  return 1\n",
    "async def f(x):\n  async for a in x:\n    if a:\n      g(a)\n    else:\n      h(a)\n  else:\n    k()\n",
    "async def f(x):\n  async for a in x:\n    async for b in a:\n      if b: break\n      g(b)\n    else:\n      continue\n    await z\n",
    "async def f(x):\n  async for a in x:\n    try:\n      g(a)\n    except E:\n      continue\n    finally:\n      h()\n",
    "async def f(x):\n  return [a async for a in x if a]\n",
    "async def f(x):\n  async for a in x:\n    yield a\n    if a: continue\n    await g(a)\n",
    "async def f(x):\n  async with x as y, z:\n    async for a in y:\n      if a: return 1\n",
    "async def f(x):\n  while x:\n    async for a in x:\n      if a: break\n    else:\n      break\n",
    "async def f(x):\n  async for a in x:\n    match a:\n      case 1: g()\n      case [p, q]: h()\n      case _: continue\n",
    "def g(x):\n  y = yield from x\n  try:\n    z = yield y\n  finally:\n    yield from y\n  return z\n",
    "async def f(x):\n  try:\n    await x\n  except E:\n    await y\n  else:\n    return await z\n  finally:\n    async with a: pass\n",
    "def f(x):\n  for a in x:\n    try:\n      if a: break\n      with a as b: continue\n    except E as e:\n      return e\n    finally:\n      g()\n  else:\n    return 2\n",
    "def f(x):\n  while True:\n    try:\n      return 1\n    finally:\n      break\n",
    "x = [i for i in range(3) if i]\ny = {i: j for i in x for j in x}\nz = (lambda a: a if a else x)(1)\n",
    "class K:\n  def m(self):\n    return super().m()\n  async def n(self):\n    return [x async for x in self]\n",
]


def gen_programs(seed, n):
  rng = random.Random(seed * 7919 + 5)
  g = ProgGen(rng)
  progs = [("seed%d" % i, s) for i, s in enumerate(ASYNC_SEEDS)]
  while len(progs) < n:
    progs.append(("gen%d" % len(progs), g.program()))
  return progs


def stdlib_files():
  std = sysconfig.get_paths()["stdlib"]
  files = []
  for root, ds, fs in os.walk(std):
    ds[:] = sorted(d for d in ds if d not in ("test", "tests", "idle_test", "site-packages", "__pycache__"))
    for f in sorted(fs):
      if f.endswith(".py") and not f.startswith("test_"):
        files.append(os.path.join(root, f))
  return files


# ----------------------------------------------------------------------------------------------
# K part 1: compiled code objects (worker)
# ----------------------------------------------------------------------------------------------
def _worker_sources(args):
  """Processes a batch of (name, src-or-path) with the real code, runs the driver on the exported raw
  streams, compares.  Returns stats + mismatches."""
  batch, cls_index = args
  lines, expect, meta = [], [], []
  xlines, xexpect, xmeta = [], [], []
  stats = collections.Counter()
  mism = []
  for name, src in batch:
    if src is None:
      try:
        src = open(name, encoding="utf-8", errors="replace").read()
      except OSError:
        stats["unreadable"] += 1
        continue
    try:
      _, caps = process_source(src, name)
    except SyntaxError:
      stats["not_compilable"] += 1
      continue
    except Exception as e:   # pylint: disable=broad-except
      if e.__class__.__name__ == "CompileError":
        stats["not_compilable"] += 1
        continue
      stats["real_crash"] += 1
      mism.append({"kind": "real-code-raised", "source_name": name, "source": src if len(src) < 6000 else None,
                   "exception": "%s: %s" % (e.__class__.__name__, str(e)[:300]),
                   "trace": traceback.format_exc()[-1200:]})
      continue
    stats["sources"] += 1
    for cap in caps:
      try:
        line = driver_line(cap["raw"], cap["entries"], cap["ver"][1], True, cls_index)
      except KeyError as e:
        mism.append({"kind": "class-not-in-table", "source_name": name, "class": str(e)})
        continue
      lines.append(line)
      expect.append(real_result(cap["ops"], cap["nodes"], cap["order"]))
      meta.append((name, cap["name"], len(cap["ops"]), len(cap["nodes"]), src if len(src) < 6000 else None))
      if "pre" in cap and "post" in cap:
        try:
          xlines.append(x_line(cap["pre"], cap["table"], cls_index))
          xexpect.append(x_expected(cap["post"], cls_index))
          xmeta.append((name, cap["name"], src if len(src) < 6000 else None, len(cap["table"])))
        except KeyError as e:
          mism.append({"kind": "class-not-in-table", "source_name": name, "class": str(e)})
      if any(r[5] and r[3] is None for r in cap["raw"]):
        mism.append({"kind": "pre-set-target-not-in-stream", "source_name": name, "code": cap["name"]})
  outs = run_driver(lines)
  hashes = set()
  prem = collections.Counter()
  samples = []
  for line, exp, got, mt in zip(lines, expect, outs, meta):
    stats["code_objects"] += 1
    stats["ops"] += mt[2]
    stats["blocks"] += mt[3]
    parts = got.rsplit("|", 1)
    model, pr = (parts[0], parts[1]) if len(parts) == 2 else (got, "")
    p = parse_premises(pr)
    for k in ("rawwf", "opswf", "nointerior"):
      if p.get(k, 0) != 1:
        prem["premise_fail_" + k] += 1
    if p.get("guard", 1) != 1:
      prem["merge_guard_fails(known finding class)"] += 1
    if p.get("sends", 0):
      prem["streams_with_SEND"] += 1
    if p.get("merges", 0):
      prem["streams_with_anext_merge"] += 1
    if p.get("jbremoved", 0):
      prem["streams_with_jump_back_block_removed"] += 1
    if mt[3] >= 2:
      hashes.add(hashlib.blake2b(line.encode(), digest_size=8).hexdigest())
    if model != exp:
      mism.append({"kind": "model-vs-real", "source_name": mt[0], "code": mt[1], "n_ops": mt[2], "source": mt[4],
                   "driver_input": line if len(line) < 4000 else line[:4000] + "...",
                   "real": exp if len(exp) < 3000 else _first_diff(exp, model)[0],
                   "model": model if len(model) < 3000 else _first_diff(exp, model)[1]})
    elif len(samples) < 2 and 3 <= mt[3] <= 8 and mt[2] < 40:
      samples.append({"source_name": mt[0], "code": mt[1], "result": exp, "premises": pr})
  # opcodes._add_setup_except: model vs real, item by item
  for line, exp, got, mt in zip(xlines, xexpect, run_driver(xlines), xmeta):
    stats["setup_except_streams"] += 1
    stats["exception_table_entries"] += mt[3]
    parts = got.rsplit("|", 1)
    model, pr = (parts[0], parts[1]) if len(parts) == 2 else (got, "")
    p = parse_premises(pr)
    for k in ("evenOffs", "startsPos"):
      if p.get(k, 0) != 1:
        prem["premise_fail_" + k] += 1
    if p.get("stopsOnOps", 0) != 1:
      # guard of try_ranges_closed_partial only: pycnite's inclusive `end` sometimes falls between two ops
      # (e.end not in offset_to_op -> the max() branch of _add_exception_block); counted, not a failure
      prem["streams_with_a_range_ending_between_ops(outside try_ranges_closed_partial)"] += 1
    if p.get("endsFresh", 0) != 1:
      # guard of try_ranges_closed (two kept ranges ending between the same two instructions): counted
      prem["streams_outside_endsFresh(outside try_ranges_closed)"] += 1
    if model != exp:
      mism.append({"kind": "setup-except-model-vs-real", "source_name": mt[0], "code": mt[1], "source": mt[2],
                   "driver_input": line if len(line) < 3000 else line[:3000] + "...",
                   "real": exp if len(exp) < 2500 else _first_diff(exp, model)[0],
                   "model": model if len(model) < 2500 else _first_diff(exp, model)[1]})
  return dict(stats), mism[:20], hashes, dict(prem), samples


def _first_diff(a, b):
  i = 0
  while i < min(len(a), len(b)) and a[i] == b[i]:
    i += 1
  lo = max(0, i - 200)
  return a[lo:i + 400], b[lo:i + 400]


# ----------------------------------------------------------------------------------------------
# K part 2: synthetic streams and graphs (direct calls)
# ----------------------------------------------------------------------------------------------
PALETTE = ["LOAD_CONST", "POP_TOP", "POP_JUMP_IF_FALSE", "JUMP_FORWARD", "JUMP_BACKWARD", "RETURN_VALUE",
           "RETURN_CONST", "RAISE_VARARGS", "SEND", "JUMP_BACKWARD_NO_INTERRUPT", "CLEANUP_THROW", "END_SEND",
           "GET_ANEXT", "END_ASYNC_FOR", "YIELD_VALUE", "SETUP_EXCEPT_311", "POP_BLOCK", "SETUP_LOOP",
           "BREAK_LOOP", "SETUP_FINALLY", "FOR_ITER", "SETUP_WITH", "RESUME", "RERAISE", "NOP", "CONTINUE_LOOP",
           "END_FINALLY", "JUMP_ABSOLUTE", "CALL_FUNCTION"]


def synth_real(case):
  try:
    with time_limit(20):
      return _synth_real(case)
  except RealCodeTimeout:
    return "err timeout RealCodeTimeout"


def _synth_real(case):
  """Runs the real functions on a synthetic stream.  case = (ver_minor, with_pop, items, entries) with
  items = [(off2, clsname, argval2|None, pre2|None, push)] (doubled offsets)."""
  m = pt()
  opc, blk, cfgu, ptypes = m["opcodes"], m["blocks"], m["cfg_utils"], m["ptypes"]
  ver, with_pop, items, entries = case
  version = (3, ver)
  o2o = {}
  for off2, name, argval2, pre2, push in items:
    cls = getattr(opc, name)
    off = off2 // 2 if off2 % 2 == 0 else off2 / 2
    if cls.has_argument():
      av = None
      if argval2 is not None:
        av = argval2 // 2 if argval2 % 2 == 0 else argval2 / 2
      op = cls(0, 1, 1, 0, 0, 0, av)
    else:
      op = cls(0, 1, 1, 0, 0)
    op.push_exc_block = bool(push)
    o2o[off] = op
  for off2, name, argval2, pre2, push in items:
    if pre2 is not None:
      off = off2 // 2 if off2 % 2 == 0 else off2 / 2
      poff = pre2 // 2 if pre2 % 2 == 0 else pre2 / 2
      o2o[off].target = o2o[poff]
  try:
    ops, o2i = opc._make_opcode_list(o2o, version)
    opc._add_jump_targets(ops, o2i)
    if version >= (3, 12):
      et = ptypes.ExceptionTable([ptypes.ExceptionTableEntry(s // 2, s // 2, t // 2, 0, False) for s, t in entries])
      opc._add_async_for_jump_back_targets(ops, o2o, et)
  except Exception as e:   # pylint: disable=broad-except
    return "err build " + e.__class__.__name__
  if with_pop:
    try:
      blk.add_pop_block_targets(ops)
    except Exception as e:   # pylint: disable=broad-except
      return "err pop " + e.__class__.__name__
  box = {}
  orig = cfgu.order_nodes

  def on(nodes):
    box["nodes"] = list(nodes)
    return orig(nodes)
  cfgu.order_nodes = on
  try:
    order = blk.compute_order(ops, version)
  except Exception as e:   # pylint: disable=broad-except
    return "err order " + e.__class__.__name__
  finally:
    cfgu.order_nodes = orig
  return real_result(ops, box.get("nodes", []), order)


def synth_line(case, cls_index):
  ver, with_pop, items, entries = case
  f = ["P", str(ver), "1" if with_pop else "0", str(len(items)), str(len(entries))]
  for off2, name, argval2, pre2, push in items:
    f += [str(off2), str(cls_index[name]), str(0 if argval2 is None else argval2),
          str(0 if pre2 is None else pre2 + 1), "1" if push else "0"]
  for s, t in entries:
    f += [str(s), str(t)]
  return " ".join(f)


def _known_jump(name):
  return getattr(pt()["opcodes"], name).has_known_jump()


def synth_random(rng, cls_ok):
  """One random synthetic stream; structured enough to get through the stages often."""
  n = rng.choice([1, 2, 3, 4, 6, 8, 12, 20, 35])
  mode = rng.choice(["plain", "plain", "async", "blocks", "wild"])
  if mode == "plain":
    pal = ["LOAD_CONST", "POP_TOP", "POP_JUMP_IF_FALSE", "JUMP_FORWARD", "JUMP_BACKWARD", "RETURN_VALUE", "FOR_ITER",
           "RETURN_CONST", "RAISE_VARARGS", "NOP", "RERAISE", "CALL_FUNCTION"]
  elif mode == "async":
    pal = ["LOAD_CONST", "SEND", "YIELD_VALUE", "JUMP_BACKWARD_NO_INTERRUPT", "CLEANUP_THROW", "END_SEND", "GET_ANEXT",
           "END_ASYNC_FOR", "JUMP_BACKWARD", "POP_JUMP_IF_FALSE", "RETURN_VALUE", "POP_TOP", "RESUME"]
  elif mode == "blocks":
    pal = ["LOAD_CONST", "SETUP_EXCEPT_311", "POP_BLOCK", "SETUP_LOOP", "BREAK_LOOP", "SETUP_FINALLY", "SETUP_WITH",
           "RAISE_VARARGS", "POP_JUMP_IF_FALSE", "JUMP_FORWARD", "RETURN_VALUE", "POP_TOP", "CONTINUE_LOOP", "END_FINALLY"]
  else:
    pal = PALETTE
  pal = [p for p in pal if p in cls_ok]
  ver = rng.choice([12, 12, 12, 11, 10])
  names = [rng.choice(pal) for _ in range(n)]
  if rng.random() < 0.8 and not getattr(pt()["opcodes"], names[-1]).no_next():
    names[-1] = rng.choice(["RETURN_VALUE", "RETURN_CONST"])
  pairs = []
  o = 0
  for nm in names:
    if nm in ("SETUP_EXCEPT_311", "POP_BLOCK") and rng.random() < 0.7:
      pairs.append(o + 1)          # synthetic ops sit at x.5 offsets (odd when doubled)
      o += 2
    else:
      pairs.append(o)
      o += rng.choice([2, 4, 4, 8])
  items = []
  for off2, nm in zip(pairs, names):
    argval = None
    pre = None
    if nm == "SETUP_EXCEPT_311":
      pre = rng.choice(pairs)
    elif _known_jump(nm):
      argval = rng.choice(pairs) if rng.random() < 0.93 else rng.choice([pairs[-1] + 2, 1, 7])
    push = rng.random() < 0.06
    items.append((off2, nm, argval, pre, push))
  entries = []
  if ver >= 12:
    an = [off for off, nm in zip(pairs, names) if nm == "GET_ANEXT" and off % 2 == 0]
    ea = [off for off, nm in zip(pairs, names) if off % 2 == 0]
    for _ in range(rng.choice([0, 0, 1, 2, 3])):
      if an and ea and rng.random() < 0.8:
        tgt = rng.choice([off for off, nm in zip(pairs, names) if nm == "END_ASYNC_FOR" and off % 2 == 0] or ea)
        entries.append((rng.choice(an), tgt))
      elif ea:
        entries.append((rng.choice(ea + [pairs[-1] + 2 + (pairs[-1] % 2)]), rng.choice(ea)))
  with_pop = rng.random() < (0.8 if mode in ("plain", "async") else 0.5)
  return (ver, with_pop, items, entries)


def synth_async_template(rng):
  """The shape CPython 3.12 emits for `async for` (+ perturbations)."""
  names = ["RESUME", "LOAD_CONST", "GET_ANEXT", "LOAD_CONST", "SEND", "YIELD_VALUE", "RESUME",
           "JUMP_BACKWARD_NO_INTERRUPT", "END_SEND", "POP_TOP"]
  k = rng.randint(1, 3)
  body = []
  for i in range(k):
    body += [rng.choice(["LOAD_CONST", "POP_JUMP_IF_FALSE", "POP_TOP"]), "JUMP_BACKWARD"]
  names += body + ["CLEANUP_THROW", "JUMP_BACKWARD", "END_ASYNC_FOR", "RETURN_CONST"]
  if rng.random() < 0.4:
    i = rng.randrange(len(names))
    names[i] = rng.choice(PALETTE[:16])
  if rng.random() < 0.3:
    del names[rng.randrange(len(names))]
  offs = [2 * 2 * i for i in range(len(names))]
  def find(nm, default=0):
    return offs[names.index(nm)] if nm in names else default
  items = []
  seen_cleanup = False
  for off, nm in zip(offs, names):
    argval = None
    if nm == "CLEANUP_THROW":
      seen_cleanup = True
    if _known_jump(nm) and nm != "SETUP_EXCEPT_311":
      if nm == "SEND":
        argval = find("END_SEND")
      elif nm == "JUMP_BACKWARD_NO_INTERRUPT":
        argval = find("SEND")
      elif nm == "JUMP_BACKWARD":
        argval = find("END_SEND") if seen_cleanup else find("GET_ANEXT")
      else:
        argval = rng.choice(offs)
      if rng.random() < 0.1:
        argval = rng.choice(offs)
    pre = rng.choice(offs) if nm == "SETUP_EXCEPT_311" else None
    items.append((off, nm, argval, pre, False))
  entries = [(find("GET_ANEXT"), find("END_ASYNC_FOR"))]
  if rng.random() < 0.3:
    entries.append((find("GET_ANEXT"), rng.choice(offs)))
  return (12, rng.random() < 0.7, items, entries)


def synth_exhaustive(max_len, pal):
  """All streams of length <= max_len over `pal`, every known-jump argument ranging over all offsets."""
  import itertools
  for n in range(1, max_len + 1):
    offs = [4 * i for i in range(n)]
    for names in itertools.product(pal, repeat=n):
      jpos = [i for i, nm in enumerate(names) if _known_jump(nm)]
      for tg in itertools.product(offs, repeat=len(jpos)):
        items = []
        it = iter(tg)
        for off, nm in zip(offs, names):
          items.append((off, nm, next(it) if _known_jump(nm) else None, None, False))
        yield (12, True, items, [])


def _worker_synth(args):
  cases, cls_index = args
  lines = [synth_line(c, cls_index) for c in cases]
  outs = run_driver(lines)
  mism = []
  stats = collections.Counter()
  nontriv = set()
  for c, line, got in zip(cases, lines, outs):
    real = synth_real(c)
    model = got.rsplit("|", 1)[0]
    stats["synthetic_streams"] += 1
    if real.startswith("err"):
      stats["synthetic_" + real.replace(" ", "_")] += 1
    else:
      stats["synthetic_ok"] += 1
      if real.count(">") >= 2:
        nontriv.add(hashlib.blake2b(line.encode(), digest_size=8).hexdigest())
    if model == "err build Unsupported":
      # the one corner the model refuses (Opcodes.resolveTarget: a pre-set target that points at an op elided by the
      # 3.11 rule — no compiler output has it): not compared, counted
      stats["synthetic_outside_model(pre-set target elided)"] += 1
      continue
    if real != model:
      mism.append({"kind": "synthetic-stream", "case": {"ver": c[0], "with_pop": c[1], "items": c[2], "entries": c[3]},
                   "real": real[:1500], "model": model[:1500]})
  return dict(stats), mism[:10], nontriv


class _Node:
  def __init__(self, i):
    self.id = i
    self.outgoing = set()
    self.incoming = set()


def graph_cases(rng, n_cases):
  cases = []
  import itertools
  # exhaustive: all graphs on <= 3 nodes (ids 0..n-1, any edge set incl. self loops)
  for n in (1, 2, 3):
    pairs = [(a, b) for a in range(n) for b in range(n)]
    for mask in range(1 << len(pairs)):
      cases.append((list(range(n)), [p for k, p in enumerate(pairs) if mask >> k & 1]))
  for _ in range(n_cases):
    n = rng.choice([2, 4, 5, 7, 10, 16, 30, 60])
    ids = sorted(rng.sample(range(n * 3), n))
    if rng.random() < 0.3:
      rng.shuffle(ids)
    dens = rng.choice([0.5, 1.0, 1.5, 2.5])
    m = int(n * dens)
    edges = []
    for _ in range(m):
      a = rng.choice(ids)
      b = rng.choice(ids)
      if rng.random() < 0.5:   # mostly forward chains
        k = ids.index(a)
        b = ids[min(n - 1, k + rng.choice([1, 1, 2]))]
      edges.append((a, b))
    if rng.random() < 0.05:
      edges.append((rng.choice(ids), max(ids) + 5))   # edge leaving the graph: KeyError
    cases.append((ids, edges))
  return cases


def graph_real(case):
  m = pt()
  ids, edges = case
  nodes = {i: _Node(i) for i in ids}
  extra = {}
  for a, b in edges:
    tb = nodes.get(b)
    if tb is None:
      tb = extra.setdefault(b, _Node(b))
    nodes[a].outgoing.add(tb)
    tb.incoming.add(nodes[a])
  lst = [nodes[i] for i in ids]
  try:
    with time_limit(3):
      o = m["cfg_utils"].order_nodes(lst)
    r1 = "ok " + " ".join(str(x.id) for x in o)
  except Exception as e:   # pylint: disable=broad-except
    r1 = "err " + e.__class__.__name__
  try:
    with time_limit(3):
      pm = m["cfg_utils"].compute_predecessors(lst)
    r2 = "ok " + ";".join("%d:%s" % (x.id, ",".join(str(p.id) for p in sorted(pm[x], key=lambda q: q.id))) for x in lst)
  except Exception as e:   # pylint: disable=broad-except
    r2 = "err " + e.__class__.__name__
  return r1, r2


def bfs_reach(ids, edges, root):
  adj = collections.defaultdict(set)
  for a, b in edges:
    adj[a].add(b)
  seen, st = set(), [root]
  while st:
    x = st.pop()
    if x in seen:
      continue
    seen.add(x)
    st.extend(adj[x])
  return seen


def graph_oracle(case):
  """order_nodes clauses on a bare graph (for S)."""
  ids, edges = case
  r1, _ = graph_real(case)
  if any(b not in ids for _, b in edges):
    return []
  if not r1.startswith("ok"):
    return ["order_nodes raised: " + r1]
  order = [int(x) for x in r1.split()[1:]]
  f = []
  if len(set(order)) != len(order):
    f.append("duplicate in order")
  if set(order) != bfs_reach(ids, edges, ids[0]):
    f.append("order != reachable set")
  for k, x in enumerate(order):
    if k and not any(b == x and a in order[:k] for a, b in edges):
      f.append("node %d before all predecessors" % x)
  return f


# ----------------------------------------------------------------------------------------------
# K
# ----------------------------------------------------------------------------------------------
def chunks(xs, k):
  k = max(1, k)
  return [xs[i:i + k] for i in range(0, len(xs), k)]


def correspond(res, rng, tier):
  t0 = time.time()
  res.cov["prove_stage_s"] = round(t0 - res.t0, 1)
  common.ensure_driver("drv_c16")
  cls_index = class_index()
  disagreements = []
  # ---- sources
  n_gen = 300 if tier == "quick" else 1500
  progs = gen_programs(common.seed(), n_gen)
  std = stdlib_files()
  if tier == "quick":
    r2 = random.Random(common.seed() * 31 + 7)
    std_sel = sorted(r2.sample(std, min(40, len(std))))
  else:
    std_sel = std
  batch = [(n, s) for n, s in progs] + [(p, None) for p in std_sel]
  # big files first for balance
  jobs = [(c, cls_index) for c in chunks(batch, max(1, len(batch) // (NPROC * 6)))]
  stats = collections.Counter()
  prem = collections.Counter()
  hashes = set()
  samples = []
  pt()   # import the real modules once; the forked workers inherit them
  with multiprocessing.Pool(NPROC, initializer=_worker_init) as pool:
    aborted = False
    for st, mism, hs, pr, smp in pool.imap_unordered(_worker_sources, jobs):
      stats.update(st)
      prem.update(pr)
      hashes |= hs
      disagreements += mism
      samples += smp
      if len(disagreements) >= 12:
        aborted = True      # plenty of material for the search stage; do not burn the budget
        break
    res.cov["correspondence_aborted_early"] = aborted
    t1 = time.time()
    # ---- synthetic streams
    opc = pt()["opcodes"]
    cls_ok = {n for n in PALETTE if hasattr(opc, n) and n in cls_index}
    ex_pal = [p for p in ["LOAD_CONST", "POP_JUMP_IF_FALSE", "JUMP_BACKWARD", "RETURN_VALUE", "SEND",
                          "JUMP_BACKWARD_NO_INTERRUPT", "CLEANUP_THROW", "GET_ANEXT"] if p in cls_ok]
    synth = list(synth_exhaustive(3 if tier == "quick" else 4, ex_pal if tier == "quick" else ex_pal))
    n_ex = len(synth)
    n_rand = 4000 if tier == "quick" else 40000
    for i in range(n_rand):
      synth.append(synth_async_template(rng) if i % 4 == 0 else synth_random(rng, cls_ok))
    sst = collections.Counter()
    s_nontriv = set()
    if not aborted:
      for st, mism, nt in pool.imap_unordered(_worker_synth, [(c, cls_index) for c in chunks(synth, 400)]):
        sst.update(st)
        s_nontriv |= nt
        disagreements += mism
        if len(disagreements) >= 40:
          break
    pool.terminate()
  t2 = time.time()
  # ---- graphs (order_nodes / compute_predecessors called directly)
  gcases = graph_cases(rng, 400 if tier == "quick" else 4000)
  glines = []
  for ids, edges in gcases:
    body = "%d %s %d %s" % (len(ids), " ".join(map(str, ids)), len(edges), " ".join("%d %d" % e for e in edges))
    glines.append("ON " + body.strip())
    glines.append("CP " + body.strip())
  gout = run_driver(glines)
  g_nontriv = 0
  g_bad = 0
  with multiprocessing.Pool(NPROC, initializer=_worker_init) as pool:
    for k, (r1, r2) in enumerate(pool.imap(graph_real, gcases, chunksize=10)):
      case = gcases[k]
      m1, m2 = gout[2 * k], gout[2 * k + 1]
      if r1.startswith("ok") and len(r1.split()) > 2:
        g_nontriv += 1
      if r1.strip() != m1.strip() or r2 != m2:
        g_bad += 1
        disagreements.append({"kind": "graph", "ids": case[0], "edges": case[1], "real_order": r1, "model_order": m1,
                              "real_preds": r2[:500], "model_preds": m2[:500]})
        if g_bad >= 10:
          break
    pool.terminate()
  t3 = time.time()
  n_eval = stats["code_objects"] + sst["synthetic_streams"] + len(gcases)
  res.cov["evaluations"] = n_eval
  res.cov["distinct_nontrivial"] = len(hashes) + len(s_nontriv)
  res.cov["exhaustive"] = False
  res.cov["rule"] = (
      "(1) every code object (module, class bodies, functions, lambdas, comprehensions, generators, coroutines) of "
      "%d generated programs (15 fixed async/generator seeds + random statement trees over loops, try/except/finally, "
      "except*, with, async for/with, yield/yield from, match, comprehensions, nested defs/lambdas/classes) and of %d of the %d "
      "non-test CPython 3.12 stdlib files: raw (offset, class, jump arg, pre-set target, push_exc_block) items captured "
      "at opcodes._make_opcode_list + exception table -> drv_c16; compared exactly with the real per-op "
      "(index,next,prev,target,block_target,end_async_for_target), the block list handed to order_nodes (ids, code, "
      "outgoing sets) and the order. (2) %d exhaustive + %d random synthetic streams through the real "
      "_make_opcode_list/_add_jump_targets/_add_async_for_jump_back_targets/add_pop_block_targets/compute_order "
      "(incl. error class and stage). (3) %d graphs (all graphs on <=3 nodes + random up to 60 nodes) through the real "
      "order_nodes and compute_predecessors. non-trivial = >= 2 blocks; distinct = distinct raw stream (hash)."
      % (len(progs), len(std_sel), len(std), n_ex, n_rand, len(gcases)))
  res.cov["distribution"] = {
      "generated_programs": len(progs), "stdlib_files_selected": len(std_sel), "stdlib_files_total": len(std),
      "sources_processed": stats["sources"], "sources_not_compilable": stats["not_compilable"],
      "code_objects": stats["code_objects"], "ops": stats["ops"], "blocks": stats["blocks"],
      "premises": dict(prem),
      "premise_failures_full_theorems": sum(v for k, v in prem.items() if k.startswith("premise_fail_")),
      "synthetic": dict(sst), "synthetic_distinct_multi_block": len(s_nontriv),
      "graphs": len(gcases), "graphs_order_len_ge2": g_nontriv,
      "timing_s": {"sources": round(t1 - t0, 1), "synthetic": round(t2 - t1, 1), "graphs": round(t3 - t2, 1)},
  }
  res.add_samples(samples[:3])
  res.add_samples([{"generated_program": progs[len(ASYNC_SEEDS)][1][:600]}])
  # premises of the full theorems must hold on every real stream
  pf = res.cov["distribution"]["premise_failures_full_theorems"]
  if pf:
    disagreements.append({"kind": "premise-of-theorem-fails-on-real-stream", "counts": dict(prem)})
  _STATE["sources"] = batch
  return disagreements


_STATE = {}


# ----------------------------------------------------------------------------------------------
# W
# ----------------------------------------------------------------------------------------------
def witnesses(res):
  known, fixed = common.known_findings("C16")
  n = 0
  for e in known:
    n += 1
    src = e["witness"]["source"]
    fails = oracle_source(src, "<witness>", known_dup_ok=False) or []
    dup = [x for x in fails if "more than one block" in x]
    other = [x for x in fails if "more than one block" not in x]
    if dup:
      res.known_lines.append(e["what"] + " [" + dup[0] + "]")
    if other:
      res.violation("witness-" + e["id"], {"property": "C16", "kind": "known-witness-fails-differently",
                                           "input": {"source": src}, "failures": other})
  for e in fixed:
    n += 1
    fails = oracle_source(e["witness"]["source"], "<witness>", known_dup_ok=False)
    if fails:
      res.violation("fixed-" + e["id"], {"property": "C16", "kind": "fixed-witness-fails-again",
                                         "input": e["witness"], "failures": fails})
  res.cov["witnesses_replayed"] = n


# ----------------------------------------------------------------------------------------------
# S
# ----------------------------------------------------------------------------------------------
def _stmt_paths(tree):
  """All (body-list, index) positions of statements."""
  out = []
  for node in ast.walk(tree):
    for field in ("body", "orelse", "finalbody", "handlers", "cases"):
      lst = getattr(node, field, None)
      if isinstance(lst, list):
        for st in lst:
          if isinstance(st, (ast.stmt, ast.ExceptHandler, ast.match_case)):
            out.append(st)
  return out


def shrink_source(src, fails, budget_s=40.0):
  """Statement-removal delta debugging (ast based)."""
  try:
    tree = ast.parse(src)
  except SyntaxError:
    return src
  stmts = _stmt_paths(tree)
  ids = list(range(len(stmts)))

  def build(keep_ids):
    keep = {id(stmts[i]) for i in keep_ids}
    t = ast.parse(src)
    new_stmts = _stmt_paths(t)
    drop = {id(new_stmts[i]) for i in range(len(new_stmts)) if i not in set(keep_ids)}
    del keep

    class Rm(ast.NodeTransformer):
      def generic_visit(self, node):
        super().generic_visit(node)
        for field in ("body", "orelse", "finalbody", "handlers", "cases"):
          lst = getattr(node, field, None)
          if isinstance(lst, list):
            new = [x for x in lst if id(x) not in drop]
            if field == "body" and not new and not isinstance(node, ast.Module):
              new = [ast.Pass()]
            if field == "handlers" and not new and isinstance(node, ast.Try) and not node.finalbody and lst:
              new = lst[:1]
            if field == "cases" and not new and lst:
              new = lst[:1]
            setattr(node, field, new)
        return node
    t = Rm().visit(t)
    ast.fix_missing_locations(t)
    try:
      return ast.unparse(t) + "\n"
    except Exception:   # pylint: disable=broad-except
      return None

  def f(keep_ids):
    s = build(keep_ids)
    return bool(s) and fails(s)
  try:
    if not f(ids):
      return src
  except Exception:   # pylint: disable=broad-except
    return src
  kept = common.ddmin(ids, f, budget_s=budget_s)
  return build(kept) or src


def search(res, rng, disagreements, pfail):
  """S: the property's clauses evaluated directly on the real code around the disagreeing inputs, then on
  every source of this run; failing sources are shrunk by statement removal."""
  found = []
  t0 = time.time()
  _worker_init()   # from here on the real code also runs in this process (shrinking): cap its memory
  cands = []
  for d in disagreements:
    if d.get("kind") in ("model-vs-real", "real-code-raised") and d.get("source"):
      cands.append((d["source_name"], d["source"]))
    elif d.get("kind") in ("model-vs-real", "real-code-raised") and d.get("source_name", "").endswith(".py"):
      cands.append((d["source_name"], None))
  # graphs and synthetic streams that disagree: check the graph clauses directly
  for d in disagreements:
    if d.get("kind") == "graph":
      case = (d["ids"], [tuple(e) for e in d["edges"]])
      f = graph_oracle(case)
      if f:
        def gf(edges, ids=d["ids"]):
          return bool(graph_oracle((ids, edges)))
        small = common.ddmin(case[1], gf, budget_s=10.0)
        found.append({"graph_ids": d["ids"], "graph_edges": [list(e) for e in small],
                      "failures": graph_oracle((d["ids"], small)), "real_order": graph_real((d["ids"], small))[0]})
        break
  srcs = _STATE.get("sources")
  if srcs is None:
    srcs = [(n, s) for n, s in gen_programs(common.seed(), 300)]
  seen = set()
  allc = cands + [(n, s) for n, s in srcs if s is not None] + [(n, s) for n, s in srcs if s is None]
  # generated programs first (small), then stdlib files; evaluate in parallel
  todo = []
  for n, s in allc:
    if n in seen:
      continue
    seen.add(n)
    todo.append((n, s))
  with multiprocessing.Pool(NPROC, initializer=_worker_init) as pool:
    results = pool.imap(_oracle_job, todo, chunksize=4)
    failing = []
    for (n, s), fl in zip(todo, results):
      if fl:
        failing.append((n, s, fl))
        if len(failing) >= 6 or time.time() - t0 > 150:
          break
    pool.terminate()
  failing.sort(key=lambda x: len(x[1]) if x[1] is not None else 10 ** 9)
  for n, s, fl in failing[:2]:
    if s is None:
      s = open(n, encoding="utf-8", errors="replace").read()
    key = _clause_key(fl[0])

    def fails(src, key=key):
      r = oracle_source(src, "<shrink>")
      return bool(r) and any(_clause_key(x) == key for x in r)
    small = shrink_source(s, fails, budget_s=45.0)
    found.append({"source_name": n, "source": small, "failures": (oracle_source(small, "<shrunk>") or fl)[:6]})
  # streams the compiler does not emit: a crash / clause failure of the real functions on a synthetic stream
  if not found:
    for d in disagreements:
      if d.get("kind") == "synthetic-stream" and d["real"].startswith("err") and not d["model"].startswith("err"):
        found.append({"synthetic_stream": d["case"], "real": d["real"], "model_says": d["model"][:300]})
        break
  return found


def _clause_key(s):
  s = s.split(": ", 1)[-1]
  return "".join(ch for ch in s if not ch.isdigit())[:40]


def _oracle_job(ns):
  n, s = ns
  try:
    if s is None:
      s = open(n, encoding="utf-8", errors="replace").read()
    return oracle_source(s, n)
  except Exception as e:   # pylint: disable=broad-except
    return ["oracle crashed: %r" % e]


def main():
  prepare()
  return common.run_check(
      "C16", REQUIRED, correspond, witnesses, search,
      extra_targets=["drv_c16"],
      trusted=[
          "hand-written model of opcodes._make_opcode_list/_add_jump_targets/_add_async_for_jump_back_targets, "
          "blocks.add_pop_block_targets/_split_bytecode/_preprocess_async_for_and_yield/_remove_jump_back_block/"
          "_remove_jmp_to_get_anext_and_merge/compute_order, cfg_utils.compute_predecessors/order_nodes; tied by exact "
          "differential runs",
          "translate/opcode_table.py (introspects the Opcode subclasses of the repo under test; reference columns from "
          "pycnite's 3.12 tables and CPython's flowgraph.c fall-through list)",
          "hand-written model of opcodes._add_setup_except/_add_exception_block/_get_exception_bitmask (Blocks/"
          "SetupExcept.lean); tied by exact item-by-item comparison (offset, class, pre-set target, push/pop flags) on "
          "every code object",
          "CPython's compiler and pycnite's disassembler are outside the model (their output is the model's input, taken "
          "from the real run)",
      ],
      assumptions=[
          "python_version (3,12) for compiled code (the interpreter of this image); 3.11 elision and <3.12 paths only via "
          "synthetic streams",
          "an opcode object is identified by its index (opcode_list_wf), a block by its id (ids are pairwise distinct)",
          "set/dict iteration orders are irrelevant to the results (min() over distinct ids; fixpoints)",
      ])


if __name__ == "__main__":
  sys.exit(main())
