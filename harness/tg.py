"""Shared typegraph machinery for C07 / C08: op text format, replay on the real cfg.Program,
rendering for the Lean drivers (lean/Driver/Typegraph.lean), address-order probe, generators.

An op is a tuple; its text form is the one used in known_findings.json / replay files:

  node [c] | connect_new a [c] | connect a b | var | var_with w [ss] [d,..] | bind v d [ss] w | bind0 v d
  origin b w [ss] | paste v b w|- [ss] | paste_var v v2 w|- [ss] | paste_new_data v b d
  assign b w|- | assign_var v w|- | setcond n b|-
  query has n [bs] | query canhave n [bs] | query visible b n | query filter v n 0|1 | query bindings v n|-

ids: nodes, variables and bindings are numbered in creation order (= pytype's own ids); data are labels.
"""
from __future__ import annotations


def _lst(xs):
  return "[" + ",".join(str(x) for x in xs) + "]"


def _opt(x):
  return "-" if x is None else str(x)


def _plist(s):
  s = s.strip()
  assert s[0] == "[" and s[-1] == "]", s
  inner = s[1:-1].strip()
  return tuple(int(x) for x in inner.split(",")) if inner else ()


def _pdlist(s):
  s = s.strip()
  inner = s[1:-1].strip()
  return tuple(x.strip() for x in inner.split(",")) if inner else ()


def _popt(s):
  return None if s == "-" else int(s)


def op_text(op):
  k = op[0]
  if k == "node":
    return "node" if op[1] is None else "node %d" % op[1]
  if k == "connect_new":
    return "connect_new %d" % op[1] if op[2] is None else "connect_new %d %d" % (op[1], op[2])
  if k == "connect":
    return "connect %d %d" % (op[1], op[2])
  if k == "var":
    return "var"
  if k == "var_with":
    return "var_with %d %s %s" % (op[1], _lst(op[2]), _lst(op[3]))
  if k == "bind":
    return "bind %d %s %s %d" % (op[1], op[2], _lst(op[3]), op[4])
  if k == "bind0":
    return "bind0 %d %s" % (op[1], op[2])
  if k == "origin":
    return "origin %d %d %s" % (op[1], op[2], _lst(op[3]))
  if k == "paste":
    return "paste %d %d %s %s" % (op[1], op[2], _opt(op[3]), _lst(op[4]))
  if k == "paste_var":
    return "paste_var %d %d %s %s" % (op[1], op[2], _opt(op[3]), _lst(op[4]))
  if k == "paste_new_data":
    return "paste_new_data %d %d %s" % (op[1], op[2], op[3])
  if k == "assign":
    return "assign %d %s" % (op[1], _opt(op[2]))
  if k == "assign_var":
    return "assign_var %d %s" % (op[1], _opt(op[2]))
  if k == "setcond":
    return "setcond %d %s" % (op[1], _opt(op[2]))
  if k == "query":
    q = op[1]
    if q in ("has", "canhave"):
      return "query %s %d %s" % (q, op[2], _lst(op[3]))
    if q == "visible":
      return "query visible %d %d" % (op[2], op[3])
    if q == "filter":
      return "query filter %d %d %d" % (op[2], op[3], 1 if op[4] else 0)
    if q == "bindings":
      return "query bindings %d %s" % (op[2], _opt(op[3]))
    if q == "stats":
      return "query stats"
  raise ValueError("bad op %r" % (op,))


def parse_op(text):
  w = text.split()
  k = w[0]
  if k == "node":
    return ("node", _popt(w[1]) if len(w) > 1 else None)
  if k == "connect_new":
    return ("connect_new", int(w[1]), _popt(w[2]) if len(w) > 2 else None)
  if k == "connect":
    return ("connect", int(w[1]), int(w[2]))
  if k == "var":
    return ("var",)
  if k == "var_with":
    return ("var_with", int(w[1]), _plist(w[2]), _pdlist(w[3]))
  if k == "bind":
    return ("bind", int(w[1]), w[2], _plist(w[3]), int(w[4]))
  if k == "bind0":
    return ("bind0", int(w[1]), w[2])
  if k == "origin":
    return ("origin", int(w[1]), int(w[2]), _plist(w[3]))
  if k == "paste":
    return ("paste", int(w[1]), int(w[2]), _popt(w[3]), _plist(w[4]))
  if k == "paste_var":
    return ("paste_var", int(w[1]), int(w[2]), _popt(w[3]), _plist(w[4]))
  if k == "paste_new_data":
    return ("paste_new_data", int(w[1]), int(w[2]), w[3])
  if k == "assign":
    return ("assign", int(w[1]), _popt(w[2]))
  if k == "assign_var":
    return ("assign_var", int(w[1]), _popt(w[2]))
  if k == "setcond":
    return ("setcond", int(w[1]), _popt(w[2]))
  if k == "query":
    q = w[1]
    if q in ("has", "canhave"):
      return ("query", q, int(w[2]), _plist(w[3]))
    if q == "visible":
      return ("query", "visible", int(w[2]), int(w[3]))
    if q == "filter":
      return ("query", "filter", int(w[2]), int(w[3]), w[4] not in ("0", "False"))
    if q == "bindings":
      return ("query", "bindings", int(w[2]), _popt(w[3]))
    if q == "stats":
      return ("query", "stats")
  raise ValueError("bad op text %r" % text)


def is_query(op):
  return op[0] == "query"


class DataTable:
  """label -> small integer for the driver, label -> one Python object for the real program."""

  def __init__(self):
    self.idx = {}
    self.obj = {}

  def num(self, label):
    label = str(label)
    if label not in self.idx:
      self.idx[label] = len(self.idx)
    return self.idx[label]

  def get(self, label):
    label = str(label)
    if label not in self.obj:
      self.obj[label] = "data:" + label   # one object per label: identity is what pytype keys on
    return self.obj[label]


def driver_line(op, dt):
  """Text for the Lean driver: same as op_text but data labels replaced by numbers."""
  k = op[0]
  if k == "bind":
    return "bind %d %d %s %d" % (op[1], dt.num(op[2]), _lst(op[3]), op[4])
  if k == "bind0":
    return "bind0 %d %d" % (op[1], dt.num(op[2]))
  if k == "paste_new_data":
    return "paste_new_data %d %d %d" % (op[1], op[2], dt.num(op[3]))
  if k == "var_with":
    return "var_with %d %s %s" % (op[1], _lst(op[2]), _lst(dt.num(d) for d in op[3]))
  return op_text(op)


def driver_lines(ops, addrs=None, cold=False):
  """reset + ops.  cold=True renders every query as `cold …` (fresh-solver answer)."""
  dt = DataTable()
  out = ["reset" + ("" if not addrs else " " + " ".join(str(a) for a in addrs))]
  for op in ops:
    l = driver_line(op, dt)
    if cold and op[0] == "query" and op[1] != "stats":
      l = "cold " + l[len("query "):]
    out.append(l)
  return out


def n_outputs(ops):
  return sum(1 for o in ops if o[0] == "query")


class Real:
  """A real cfg.Program driven by ops; answers are rendered like the driver's."""

  def __init__(self, cfg):
    self.cfg = cfg
    self.p = cfg.Program()
    self.nodes = []
    self.vars = []
    self.b = []       # bindings by id
    self.dt = DataTable()

  def _sync(self, v):
    """register bindings created inside variable v (ids are dense, program-wide)."""
    nb = self.p.next_binding_id
    if nb > len(self.b):
      self.b.extend([None] * (nb - len(self.b)))
      for x in v.bindings:
        if self.b[x.id] is None:
          self.b[x.id] = x
      assert all(x is not None for x in self.b), "binding bookkeeping lost an id"

  def ok(self, op):
    """ids in range (mirror of Op.ok in Program.lean)."""
    nn, nv, nb = len(self.nodes), len(self.vars), len(self.b)
    on = lambda n: n is None or 0 <= n < nn
    ob = lambda b: b is None or 0 <= b < nb
    k = op[0]
    if k == "node": return ob(op[1])
    if k == "connect_new": return 0 <= op[1] < nn and ob(op[2])
    if k == "connect": return 0 <= op[1] < nn and 0 <= op[2] < nn
    if k == "var": return True
    if k == "var_with": return 0 <= op[1] < nn and all(0 <= b < nb for b in op[2])
    if k == "bind": return 0 <= op[1] < nv and all(0 <= b < nb for b in op[3]) and 0 <= op[4] < nn
    if k == "bind0": return 0 <= op[1] < nv
    if k == "origin": return 0 <= op[1] < nb and 0 <= op[2] < nn and all(0 <= b < nb for b in op[3])
    if k == "paste": return 0 <= op[1] < nv and 0 <= op[2] < nb and on(op[3]) and all(0 <= b < nb for b in op[4])
    if k == "paste_var": return 0 <= op[1] < nv and 0 <= op[2] < nv and on(op[3]) and all(0 <= b < nb for b in op[4])
    if k == "paste_new_data": return 0 <= op[1] < nv and 0 <= op[2] < nb
    if k == "assign": return 0 <= op[1] < nb and on(op[2])
    if k == "assign_var": return 0 <= op[1] < nv and on(op[2])
    if k == "setcond": return 0 <= op[1] < nn and ob(op[2])
    if k == "query":
      q = op[1]
      if q in ("has", "canhave"): return 0 <= op[2] < nn and all(0 <= b < nb for b in op[3])
      if q == "visible": return 0 <= op[2] < nb and 0 <= op[3] < nn
      if q == "filter": return 0 <= op[2] < nv and 0 <= op[3] < nn
      if q == "bindings": return 0 <= op[2] < nv and on(op[3])
      if q == "stats": return True
    return False

  def apply(self, op):
    """Applies one op; returns the rendered answer for queries, "bad-op" for ill-formed ops, else None."""
    if not self.ok(op):
      return "bad-op"
    k = op[0]
    N, V, B = self.nodes, self.vars, self.b
    if k == "node":
      N.append(self.p.NewCFGNode("n%d" % len(N)) if op[1] is None else self.p.NewCFGNode("n%d" % len(N), B[op[1]]))
    elif k == "connect_new":
      N.append(N[op[1]].ConnectNew("n%d" % len(N)) if op[2] is None else N[op[1]].ConnectNew("n%d" % len(N), B[op[2]]))
    elif k == "connect":
      N[op[1]].ConnectTo(N[op[2]])
    elif k == "var":
      V.append(self.p.NewVariable())
    elif k == "var_with":
      v = self.p.NewVariable([self.dt.get(d) for d in op[3]], [B[b] for b in op[2]], N[op[1]])
      V.append(v)
      self._sync(v)
    elif k == "bind":
      V[op[1]].AddBinding(self.dt.get(op[2]), [B[b] for b in op[3]], N[op[4]])
      self._sync(V[op[1]])
    elif k == "bind0":
      V[op[1]].AddBinding(self.dt.get(op[2]))
      self._sync(V[op[1]])
    elif k == "origin":
      B[op[1]].AddOrigin(N[op[2]], [B[b] for b in op[3]])
    elif k == "paste":
      V[op[1]].PasteBinding(B[op[2]], None if op[3] is None else N[op[3]], [B[b] for b in op[4]])
      self._sync(V[op[1]])
    elif k == "paste_var":
      V[op[1]].PasteVariable(V[op[2]], None if op[3] is None else N[op[3]], [B[b] for b in op[4]])
      self._sync(V[op[1]])
    elif k == "paste_new_data":
      V[op[1]].PasteBindingWithNewData(B[op[2]], self.dt.get(op[3]))
      self._sync(V[op[1]])
    elif k == "assign":
      v = B[op[1]].AssignToNewVariable(None if op[2] is None else N[op[2]])
      V.append(v)
      self._sync(v)
    elif k == "assign_var":
      v = V[op[1]].AssignToNewVariable(None if op[2] is None else N[op[2]])
      V.append(v)
      self._sync(v)
    elif k == "setcond":
      N[op[1]].condition = None if op[2] is None else B[op[2]]
    elif k == "query":
      return self.ask(op)
    return None

  def ask(self, op):
    N, V, B = self.nodes, self.vars, self.b
    q = op[1]
    if q == "has":
      return "1" if N[op[2]].HasCombination([B[b] for b in op[3]]) else "0"
    if q == "canhave":
      return "1" if N[op[2]].CanHaveCombination([B[b] for b in op[3]]) else "0"
    if q == "visible":
      return "1" if B[op[2]].IsVisible(N[op[3]]) else "0"
    if q == "filter":
      return _lst(x.id for x in V[op[2]].Filter(N[op[3]], op[4]))
    if q == "bindings":
      return _lst(x.id for x in V[op[2]].Bindings(None if op[3] is None else N[op[3]]))
    if q == "stats":
      # observational: solvers created so far (invalidated ones + the live one), memo size of the latest
      sm = self.p.calculate_metrics().solver_metrics
      return "%d %d" % (len(sm), sm[-1].cache_metrics.total_size if sm else 0)
    raise ValueError(op)

  def run(self, ops):
    out = []
    for op in ops:
      r = self.apply(op)
      if r is not None:
        out.append(r)
    return out

  # -- heap-address order of the Binding objects (std::set<SourceSet> compares raw pointers) --
  def source_order_is_id_order(self):
    """True iff every origin's source sets are iterated in lexicographic id order (what the model
    assumes when no address ranks are given)."""
    for x in self.b:
      for o in x.origins:
        if len(o.source_sets) > 1:
          got = [sorted(y.id for y in s) for s in o.source_sets]
          if got != sorted(got):
            return False
    return True

  def multi_source(self):
    return any(len(o.source_sets) > 1 for x in self.b for o in x.origins)

  def addr_ranks(self):
    """DESTRUCTIVE (adds a probe variable): rank of every binding's heap address.  One origin with a
    singleton source set per binding; std::set iterates them in address order."""
    if not self.b:
      return []
    if not self.nodes:
      self.nodes.append(self.p.NewCFGNode("probe"))
    pv = self.p.NewVariable()
    probe = pv.AddBinding(self.dt.get("__probe__"))
    for x in self.b:
      probe.AddOrigin(self.nodes[0], [x])
    order = [next(iter(s)).id for s in probe.origins[0].source_sets]
    assert sorted(order) == list(range(len(self.b))), order
    ranks = [0] * len(self.b)
    for r, i in enumerate(order):
      ranks[i] = r
    return ranks


def replica_ops(ops):
  return [o for o in ops if o[0] != "query"]


# ------------------------------------------------------------------------------------------------
# structural facts about a history (computed by a plain replay of the graph ops; used by generators,
# distribution stats and the acyclicity gate of C08's search)
# ------------------------------------------------------------------------------------------------
class Shape:
  """Pure-Python bookkeeping of node/var/binding counts and edges (no semantics)."""

  def __init__(self):
    self.nn = 0
    self.nv = 0
    self.edges = set()
    self.conds = {}

  def cyclic(self):
    adj = {}
    for a, b in self.edges:
      adj.setdefault(a, []).append(b)
    color = {}
    for s in range(self.nn):
      if s in color:
        continue
      st = [(s, iter(adj.get(s, ())))]
      color[s] = 1
      while st:
        n, it = st[-1]
        for m in it:
          if color.get(m) == 1:
            return True
          if m not in color:
            color[m] = 1
            st.append((m, iter(adj.get(m, ()))))
            break
        else:
          color[n] = 2
          st.pop()
    return False


def history_shape(ops):
  """Shape after replaying the node/edge/condition part of ops (ids assumed in range)."""
  sh = Shape()
  for op in ops:
    k = op[0]
    if k == "node":
      if op[1] is not None:
        sh.conds[sh.nn] = op[1]
      sh.nn += 1
    elif k == "connect_new":
      if op[2] is not None:
        sh.conds[sh.nn] = op[2]
      sh.edges.add((op[1], sh.nn))
      sh.nn += 1
    elif k == "connect":
      if op[1] != op[2]:
        sh.edges.add((op[1], op[2]))
    elif k == "setcond":
      if op[2] is None:
        sh.conds.pop(op[1], None)
      else:
        sh.conds[op[1]] = op[2]
  return sh


# ------------------------------------------------------------------------------------------------
# random histories (generated against the live real program so that ids are always in range)
# ------------------------------------------------------------------------------------------------
def _subset(rng, n, pmax=3):
  if n == 0:
    return ()
  k = rng.choice([0, 0, 1, 1, 1, 2, 2, 3][:pmax + 5])
  k = min(k, n)
  return tuple(sorted(rng.sample(range(n), k)))


def _nss(b):
  """number of source sets of a real binding (all origins)."""
  return sum(len(o.source_sets) for o in b.origins)


def gen_mutation(rng, real, prof):
  """One random mutating op valid in `real`'s current state.  prof: dict of knobs
  (max_nodes, max_vars, max_bindings, cyclic, conds, labels).  Size guards keep source sets from
  multiplying (pasting copies every source set; the solver enumerates their combinations)."""
  nn, nv, nb = len(real.nodes), len(real.vars), len(real.b)
  if nn == 0:
    return ("node", None)
  if nv == 0:
    return ("var",)
  labels = prof.get("labels", 4)
  maxb = prof.get("max_bindings", 16)
  maxv = prof.get("max_vars", 6)
  cond = lambda: (rng.randrange(nb) if (nb and prof.get("conds", True) and rng.random() < 0.25) else None)
  wnode = lambda: rng.randrange(nn)
  ownode = lambda: (rng.randrange(nn) if rng.random() < 0.6 else None)
  small = lambda b: _nss(real.b[b]) <= 4 and len(real.b[b].origins) <= 3
  for _ in range(60):
    r = rng.random()
    if r < 0.16:
      if nn >= prof.get("max_nodes", 12):
        continue
      if rng.random() < 0.15:
        return ("node", cond())
      return ("connect_new", rng.randrange(max(0, nn - 4), nn) if rng.random() < 0.7 else wnode(), cond())
    if r < 0.30:
      a, b = wnode(), wnode()
      if not prof.get("cyclic", True):
        a, b = min(a, b), max(a, b)
        if a == b:
          continue
      return ("connect", a, b)
    if r < 0.35:
      if nv >= maxv:
        continue
      return ("var",)
    if r < 0.58:
      v = rng.randrange(nv)
      vb = real.vars[v].bindings
      if nb >= maxb or (vb and rng.random() < 0.25):
        if not vb:
          continue
        x = rng.choice(vb)        # existing data: adds an origin / source set to an existing binding
        if not small(x.id):
          continue
        lab = x.data[len("data:"):] if isinstance(x.data, str) else None
        if lab is None:
          continue
        return ("bind", v, lab, _subset(rng, nb), wnode())
      return ("bind", v, "d%d" % rng.randrange(labels), _subset(rng, nb), wnode())
    if r < 0.70:
      if nb == 0:
        continue
      b = rng.randrange(nb)
      if not small(b):
        continue
      return ("origin", b, wnode(), _subset(rng, nb))
    if r < 0.76:
      if nb == 0 or nb >= maxb + 4:
        continue
      b = rng.randrange(nb)
      if not small(b):
        continue
      return ("paste", rng.randrange(nv), b, ownode(), _subset(rng, nb, 1))
    if r < 0.79:
      v2 = rng.randrange(nv)
      vb = real.vars[v2].bindings
      if nb + len(vb) > maxb + 4 or len(vb) > 3 or not all(small(x.id) for x in vb):
        continue
      return ("paste_var", rng.randrange(nv), v2, ownode(), _subset(rng, nb, 1))
    if r < 0.83:
      if nb == 0 or nb >= maxb + 4:
        continue
      b = rng.randrange(nb)
      if not small(b):
        continue
      return ("paste_new_data", rng.randrange(nv), b, "d%d" % rng.randrange(labels))
    if r < 0.86:
      if nb == 0 or nv >= maxv + 2 or nb >= maxb + 4:
        continue
      b = rng.randrange(nb)
      if not small(b):
        continue
      return ("assign", b, ownode())
    if r < 0.88:
      if nv >= maxv + 2:
        continue
      v = rng.randrange(nv)
      vb = real.vars[v].bindings
      if nb + len(vb) > maxb + 4 or not all(small(x.id) for x in vb):
        continue
      return ("assign_var", v, ownode())
    if r < 0.95:
      if not prof.get("conds", True):
        continue
      return ("setcond", wnode(), rng.randrange(nb) if (nb and rng.random() < 0.8) else None)
    if r < 0.97:
      if nb >= maxb:
        continue
      return ("bind0", rng.randrange(nv), "d%d" % rng.randrange(labels))
    if nv >= maxv + 2 or nb >= maxb:
      continue
    return ("var_with", wnode(), _subset(rng, nb, 1),
            tuple("d%d" % rng.randrange(labels) for _ in range(rng.randrange(0, 3))))
  return ("connect", wnode(), wnode()) if prof.get("cyclic", True) else ("var",) if nv < maxv else ("setcond", wnode(), None)


def gen_query(rng, real):
  nn, nv, nb = len(real.nodes), len(real.vars), len(real.b)
  if nn == 0:
    return None
  if rng.random() < 0.06:
    return ("query", "stats")
  r = rng.random()
  if nb and r < 0.5:
    k = min(nb, rng.choice([0, 1, 1, 2, 2, 2, 3, 3, 4]))
    bs = tuple(rng.sample(range(nb), k))    # caller order matters (CanHaveSolution iterates it)
    return ("query", "has", rng.randrange(nn), bs)
  if nb and r < 0.72:
    return ("query", "visible", rng.randrange(nb), rng.randrange(nn))
  if nv and r < 0.82:
    return ("query", "filter", rng.randrange(nv), rng.randrange(nn), rng.random() < 0.7)
  if nb and r < 0.91:
    k = min(nb, rng.choice([1, 2, 3]))
    return ("query", "canhave", rng.randrange(nn), tuple(rng.sample(range(nb), k)))
  if nv:
    return ("query", "bindings", rng.randrange(nv), rng.randrange(nn) if rng.random() < 0.9 else None)
  return None


# ------------------------------------------------------------------------------------------------
# process pool with a wall-clock guard (the real solver has no timeout of its own)
# ------------------------------------------------------------------------------------------------
def parallel(fn, tasks, workers, timeout_s):
  """Yields fn(task) for every task (any order).  Raises common.Timeout when the whole map exceeds
  timeout_s; a worker that dies (crash inside the C++ extension) yields fn-shaped `None` results via
  the exception path: the caller sees RuntimeError('worker crashed')."""
  import concurrent.futures as cf
  import multiprocessing as mp
  import time as _t
  from harness import common as _c
  if not tasks:
    return
  t0 = _t.time()
  ex = cf.ProcessPoolExecutor(max_workers=min(workers, len(tasks)), mp_context=mp.get_context("fork"))
  try:
    futs = [ex.submit(fn, t) for t in tasks]
    for f in cf.as_completed(futs, timeout=timeout_s):
      yield f.result()
  except cf.TimeoutError:
    for p in list(getattr(ex, "_processes", {}).values()):
      try:
        p.kill()
      except Exception:
        pass
    raise _c.Timeout("correspondence workers exceeded %ds (%.0fs elapsed)" % (timeout_s, _t.time() - t0))
  except cf.process.BrokenProcessPool:
    raise RuntimeError("a correspondence worker crashed inside the real extension")
  finally:
    ex.shutdown(wait=False, cancel_futures=True)
