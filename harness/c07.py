"""C07 — the typegraph solver decides binding visibility correctly (DESIGN.md §5 C07).

P: lean/PytypeModel/Props/C07.lean.
K: exact answers of HasCombination / CanHaveCombination / IsVisible / Filter / Bindings of the real
   extension, every solver query on a FRESH cfg.Program, against the Lean model's cold answers
   (drv_c07): an exhaustive micro family, a seeded slice of the tiny family, random graphs up to ~40
   nodes with cycles and conditions.
W: the two listed witnesses of the provisional-`true` defect (cyclic + conditions) are replayed with the
   property's own clauses.
S: (only when P or K broke) the independent path-enumerating reference harness/tgref.py evaluates the
   property's four clauses on the real answers.
"""
import itertools
import random
import sys
import time

from harness import common, tg, tgref

REQUIRED = ["solve_goals_reachable_partial", "solve_goals_reachable_fresh", "solve_keeps_inv",
            "solve_goals_reachable_acyclic", "solve_eq_memo_free", "spec_unfold",
            "remove_finished_goals_iff", "spec_iff_expl", "solve_iff_expl_partial",
            "solve_iff_expl", "solve_subset", "expl_subset_closed",
            "find_node_backwards_sound", "find_node_backwards_iff", "remove_finished_goals_sound", "built_graph_wf",
            "built_graph_ids_ok", "solve_iff_expl_built", "solve_subset_built",
            "provisional_witness", "solve_goals_reachable_not_full"]

WORKERS = 14


# ------------------------------------------------------------------------------------------------
# graph families.  A case = (tag, mutation ops, queries)
# ------------------------------------------------------------------------------------------------
def _tiny_ops(k, edges, layout, origins, cond):
  """k nodes, directed edges, layout = variable of each binding, origins[b] = list of (node, [source sets]),
  cond = None | (node, binding)."""
  ops = [("node", None) for _ in range(k)]
  ops += [("connect", a, b) for (a, b) in edges]
  nv = max(layout) + 1
  ops += [("var",)] * nv
  for i, v in enumerate(layout):
    ops.append(("bind0", v, "d%d" % i))
  for b, os_ in enumerate(origins):
    for (w, sss) in os_:
      for ss in sss:
        ops.append(("origin", b, w, tuple(ss)))
  if cond is not None:
    ops.append(("setcond", cond[0], cond[1]))
  return ops


def all_queries(nn, nv, nb, max_subset=3):
  qs = []
  for n in range(nn):
    for r in range(0, min(max_subset, nb) + 1):
      for G in itertools.combinations(range(nb), r):
        qs.append(("query", "has", n, G))
        if r == 2:
          qs.append(("query", "has", n, (G[1], G[0])))   # CanHaveSolution iterates the caller's order
        if r >= 1:
          qs.append(("query", "canhave", n, G))
    for b in range(nb):
      qs.append(("query", "visible", b, n))
    for v in range(nv):
      qs.append(("query", "filter", v, n, True))
      qs.append(("query", "filter", v, n, False))
      qs.append(("query", "bindings", v, n))
  for v in range(nv):
    qs.append(("query", "bindings", v, None))
  return qs


def micro_family():
  """EXHAUSTIVE: k<=2 nodes, every edge set, 2 bindings in one or two variables, one origin each at any
  node with source set {} or {the other binding}, no condition or any (node, binding) condition."""
  for k in (1, 2):
    pairs = [(a, b) for a in range(k) for b in range(k) if a != b]
    for mask in range(1 << len(pairs)):
      edges = [p for i, p in enumerate(pairs) if mask >> i & 1]
      for layout in ((0, 0), (0, 1)):
        for w0 in range(k):
          for w1 in range(k):
            for s0 in ((), (1,)):
              for s1 in ((), (0,)):
                for cond in [None] + [(n, b) for n in range(k) for b in range(2)]:
                  ops = _tiny_ops(k, edges, layout, [[(w0, [s0])], [(w1, [s1])]], cond)
                  yield ("micro", ops, all_queries(k, max(layout) + 1, 2))


def tiny_member(rng):
  """One member of the tiny family: <=3 nodes, any edges, <=2 variables with <=2 bindings each, <=2 origins
  per binding, <=2 source sets per origin (each a subset of the bindings, size <=2), <=1 condition."""
  k = rng.choice([2, 3, 3, 3])
  pairs = [(a, b) for a in range(k) for b in range(k) if a != b]
  edges = [p for p in pairs if rng.random() < 0.45]
  rng.shuffle(edges)
  layout = rng.choice([(0, 0), (0, 1), (0, 0, 1), (0, 1, 1), (0, 0, 1, 1), (0,)])
  nb = len(layout)
  origins = []
  for b in range(nb):
    os_ = []
    for w in rng.sample(range(k), rng.choice([1, 1, 1, 2, 0][: 5 if k > 1 else 3]) if k > 1 else 1):
      sss = []
      for _ in range(rng.choice([1, 1, 2])):
        r = rng.choice([0, 0, 1, 1, 2])
        sss.append(tuple(sorted(rng.sample(range(nb), min(r, nb)))))
      os_.append((w, sss))
    origins.append(os_)
  cond = (rng.randrange(k), rng.randrange(nb)) if rng.random() < 0.5 else None
  return ("tiny", _tiny_ops(k, edges, layout, origins, cond), all_queries(k, max(layout) + 1, nb))


def load_corpus():
  """corpus/C07/*.json: minimised graphs of past disagreements / witnesses; run first."""
  import glob
  import json
  import os
  out = []
  for f in sorted(glob.glob(os.path.join(common.VERIF, "corpus", "C07", "*.json"))):
    for e in json.load(open(f)):
      out.append(("corpus", [tg.parse_op(t) for t in e["ops"]], [tg.parse_op(t) for t in e["queries"]]))
  return out


def random_member(cfg, rng):
  """A random graph (mutation ops generated against a live real program) + sampled queries."""
  real = tg.Real(cfg)
  prof = {"max_nodes": rng.choice([6, 10, 16, 25, 40]), "max_vars": rng.choice([3, 5, 8]),
          "max_bindings": rng.choice([6, 10, 16]), "cyclic": rng.random() < 0.6, "conds": rng.random() < 0.6,
          "labels": rng.choice([2, 3, 5])}
  ops = []
  for _ in range(rng.randrange(25, 170)):
    op = tg.gen_mutation(rng, real, prof)
    real.apply(op)
    ops.append(op)
  nn, nv, nb = len(real.nodes), len(real.vars), len(real.b)
  qs = []
  if nb:
    for _ in range(45):
      n = rng.randrange(nn)
      r = min(nb, rng.choice([0, 1, 1, 2, 2, 2, 3, 3]))
      qs.append(("query", "has", n, tuple(rng.sample(range(nb), r))))
    for _ in range(12):
      qs.append(("query", "visible", rng.randrange(nb), rng.randrange(nn)))
    for _ in range(8):
      qs.append(("query", "canhave", rng.randrange(nn), tuple(rng.sample(range(nb), min(nb, rng.choice([1, 2, 3]))))))
  for _ in range(6):
    if nv:
      qs.append(("query", "filter", rng.randrange(nv), rng.randrange(nn), rng.random() < 0.7))
      qs.append(("query", "bindings", rng.randrange(nv), rng.randrange(nn) if rng.random() < 0.9 else None))
  return ("random", ops, qs)


# ------------------------------------------------------------------------------------------------
# real side: one fresh Program per solver query
# ------------------------------------------------------------------------------------------------
SOLVER_Q = ("has", "visible", "filter")


def real_answers(cfg, ops, queries):
  """[(answer, ranks-or-None)] for every query.  Solver queries: fresh Program each; the others share one."""
  base = tg.Real(cfg)
  for o in ops:
    base.apply(o)
  multi = base.multi_source()
  out = []
  for q in queries:
    if q[1] in SOLVER_Q:
      r = tg.Real(cfg)
      for o in ops:
        r.apply(o)
      a = r.apply(q)
      ranks = tuple(r.addr_ranks()) if multi else None
      out.append((a, ranks))
    else:
      out.append((base.apply(q), None))
  return out, base


def model_answers(drv, case_answers):
  """case_answers: list of (ops, queries, [(real, ranks)]).  Returns list of model answer lists."""
  lines = []
  plan = []   # per case: list of (query index list) per ranks group, in emission order
  for ops, queries, ans in case_answers:
    groups = {}
    for i, (_, ranks) in enumerate(ans):
      groups.setdefault(ranks, []).append(i)
    order = []
    for ranks, idxs in groups.items():
      lines += tg.driver_lines(ops, list(ranks) if ranks else None)
      dt = tg.DataTable()
      for i in idxs:
        lines.append("cold " + tg.driver_line(queries[i], dt)[len("query "):])
      order.append(idxs)
    plan.append(order)
  out = drv.batch(lines)
  pos = 0
  res = []
  for (ops, queries, ans), order in zip(case_answers, plan):
    m = [None] * len(queries)
    for idxs in order:
      for i in idxs:
        m[i] = out[pos]
        pos += 1
    res.append(m)
  assert pos == len(out), (pos, len(out))
  return res


def _k_worker(args):
  seed_, kind, payload = args
  cfg = common.load_pytype()
  drv = common.Driver("drv_c07")
  rng = random.Random(seed_)
  if kind == "cases":
    cases = payload
  elif kind == "tiny":
    cases = [tiny_member(rng) for _ in range(payload)]
  else:
    cases = [random_member(cfg, rng) for _ in range(payload)]
  done = []
  stats = {"graphs": 0, "queries": 0, "true": 0, "false": 0, "nontrivial": 0, "cyclic": 0, "conditioned": 0,
           "multi_source": 0, "addr_not_id_order": 0, "nodes_max": 0, "bindings_max": 0, "by_kind": {}}
  for tag, ops, queries in cases:
    ans, base = real_answers(cfg, ops, queries)
    done.append((ops, queries, ans))
    stats["graphs"] += 1
    stats["queries"] += len(queries)
    bools = [a for (a, _), q in zip(ans, queries) if q[1] in ("has", "visible")]
    t = sum(1 for a in bools if a == "1")
    stats["true"] += t
    stats["false"] += len(bools) - t
    if t and t < len(bools):
      stats["nontrivial"] += 1
    sh = tg.history_shape(ops)
    stats["cyclic"] += 1 if sh.cyclic() else 0
    stats["conditioned"] += 1 if sh.conds else 0
    stats["multi_source"] += 1 if base.multi_source() else 0
    stats["addr_not_id_order"] += 0 if base.source_order_is_id_order() else 1
    stats["nodes_max"] = max(stats["nodes_max"], len(base.nodes))
    stats["bindings_max"] = max(stats["bindings_max"], len(base.b))
    for q in queries:
      stats["by_kind"][q[1]] = stats["by_kind"].get(q[1], 0) + 1
  model = model_answers(drv, done)
  dis = []
  for (ops, queries, ans), m in zip(done, model):
    for q, (a, ranks), b in zip(queries, ans, m):
      if a != b:
        dis.append({"ops": [tg.op_text(o) for o in ops], "query": tg.op_text(q), "real": a, "model": b,
                    "ranks": list(ranks) if ranks else None})
        break
  sample = None
  if done:
    ops, queries, ans = done[0]
    sample = {"ops": [tg.op_text(o) for o in ops][:60],
              "queries_and_answers": [[tg.op_text(q), a] for q, (a, _) in list(zip(queries, ans))[:8]]}
  return stats, dis, sample


def _live_worker(args):
  """Incremental stream: the property speaks about the graph as it is *now*, however it was built.  A long-lived
  program is grown by random mutations with queries in between (acyclic histories only: there `solve ↔ Expl` is a
  theorem and answers do not depend on the history); every answer of the live program must equal the model's cold
  answer on the graph at that moment."""
  seed_, n, length = args
  cfg = common.load_pytype()
  drv = common.Driver("drv_c07")
  rng = random.Random(seed_)
  runs = []
  tries = 0
  while len(runs) < n and tries < 4 * n:
    tries += 1
    real = tg.Real(cfg)
    prof = {"max_nodes": rng.choice([4, 6, 10, 20]), "max_vars": rng.choice([2, 4, 6]),
            "max_bindings": rng.choice([5, 8, 12, 16]), "cyclic": False,
            "conds": rng.random() < 0.4, "labels": rng.choice([2, 3, 5])}
    ops, outs = [], []
    L = rng.randrange(15, length + 1)
    while len(ops) < L:
      op = tg.gen_query(rng, real) if rng.random() < 0.45 else None
      if op is not None and op[1] == "stats":     # solver bookkeeping is C08's subject, not an answer about the graph
        op = None
      if op is None:
        op = tg.gen_mutation(rng, real, prof)
      r = real.apply(op)
      ops.append(op)
      if r is not None:
        outs.append(r)
    if tg.history_shape(ops).cyclic():
      continue
    ranks = real.addr_ranks() if real.multi_source() else None
    runs.append((ops, outs, ranks))
  lines = []
  for ops, outs, ranks in runs:
    lines += tg.driver_lines(ops, ranks, cold=True)
  mo = drv.batch(lines)
  dis, pos, nq = [], 0, 0
  for ops, outs, ranks in runs:
    m = mo[pos:pos + len(outs)]
    pos += len(outs)
    nq += len(outs)
    if m != outs:
      qidx = [i for i, o in enumerate(ops) if o[0] == "query"]
      j = next(i for i in range(len(outs)) if i >= len(m) or m[i] != outs[i])
      dis.append({"ops": [tg.op_text(o) for o in ops[:qidx[j] + 1]], "query": tg.op_text(ops[qidx[j]]),
                  "real": outs[j], "model": m[j] if j < len(m) else None, "ranks": ranks, "live": True})
  return {"histories": len(runs), "queries": nq}, dis


def _merge(total, s):
  for k, v in s.items():
    if isinstance(v, dict):
      d = total.setdefault(k, {})
      for kk, vv in v.items():
        d[kk] = d.get(kk, 0) + vv
    elif k.endswith("_max"):
      total[k] = max(total.get(k, 0), v)
    else:
      total[k] = total.get(k, 0) + v


def correspond(res, rng, tier):
  common.load_pytype()
  common.ensure_driver("drv_c07")
  micro = list(micro_family())
  n_tiny = 1200 if tier == "quick" else 20000
  n_rand = 180 if tier == "quick" else 1500
  tasks = []
  corpus = load_corpus()
  if corpus:
    tasks.append((0, "cases", corpus))
  chunk = 60
  for i in range(0, len(micro), chunk):
    tasks.append((0, "cases", micro[i:i + chunk]))
  per = 100 if tier == "quick" else 400
  for i in range(0, n_tiny, per):
    tasks.append((rng.randrange(1 << 30), "tiny", min(per, n_tiny - i)))
  per = 10 if tier == "quick" else 25
  for i in range(0, n_rand, per):
    tasks.append((rng.randrange(1 << 30), "random", min(per, n_rand - i)))
  total, dis, samples = {}, [], []
  for stats, d, sample in tg.parallel(_k_worker, tasks, WORKERS, timeout_s=(600 if tier == "quick" else 3000)):
    _merge(total, stats)
    dis += d
    if sample and len(samples) < 40:
      samples.append(sample)
  live = {"histories": 0, "queries": 0}
  ltasks = [(rng.randrange(1 << 30), 12 if tier == "quick" else 60, 60) for _ in range(WORKERS)]
  for st, d in tg.parallel(_live_worker, ltasks, WORKERS, timeout_s=(600 if tier == "quick" else 3000)):
    live["histories"] += st["histories"]
    live["queries"] += st["queries"]
    dis += d
  total["queries"] = total.get("queries", 0) + live["queries"]
  res.cov["evaluations"] = total.get("queries", 0)
  res.cov["distinct_nontrivial"] = total.get("nontrivial", 0)
  res.cov["exhaustive"] = False
  res.cov["rule"] = (
      "each evaluation = one query (HasCombination, CanHaveCombination, IsVisible, Filter strict/non-strict, Bindings) "
      "answered by the real extension — every solver query on a freshly built cfg.Program — and by the Lean model's "
      "cold answer (drv_c07), compared exactly. Graphs: (a) micro family, enumerated completely: <=2 nodes, every edge "
      "set, 2 bindings in 1 or 2 variables, each one origin at any node with source set {} or {other}, every single "
      "condition placement; (b) a seeded slice of the tiny family (<=3 nodes, <=2 variables x <=2 bindings, <=2 origins, "
      "<=2 source sets, optional condition), all nodes x all binding subsets of size <=3 (both orders for pairs); "
      "(c) random graphs up to 40 nodes with cycles, conditions and the paste/assign helpers, sampled queries. "
      "distinct_nontrivial counts graphs (each generated once) on which the real HasCombination/IsVisible answers "
      "include both True and False.  (d) incremental stream: acyclic histories of mutations with queries in between on "
      "ONE long-lived program; every live answer must equal the model's cold answer on the graph at that moment.")
  res.cov["distribution"] = {
      "live_histories": live["histories"], "live_queries": live["queries"], "corpus_graphs": len(corpus), "micro_graphs_exhaustive": len(micro), "tiny_graphs_sampled": n_tiny, "random_graphs": n_rand,
      "graphs": total.get("graphs", 0), "cyclic_graphs": total.get("cyclic", 0),
      "conditioned_graphs": total.get("conditioned", 0),
      "graphs_with_multi_source_origins": total.get("multi_source", 0),
      "graphs_whose_source_sets_are_not_in_id_order(address ranks measured and given to the model)":
          total.get("addr_not_id_order", 0),
      "answers_true": total.get("true", 0), "answers_false": total.get("false", 0),
      "queries_by_kind": total.get("by_kind", {}), "nodes_max": total.get("nodes_max", 0),
      "bindings_max": total.get("bindings_max", 0),
  }
  res.add_samples(samples[:1] + samples[-2:])
  return dis[:50]


# ------------------------------------------------------------------------------------------------
# W — known findings
# ------------------------------------------------------------------------------------------------
def _fresh_answer(cfg, muts, q):
  r = tg.Real(cfg)
  for o in muts:
    r.apply(o)
  return r.apply(q)


def clause_failures(cfg, ops, queries, drv=None, limit=3):
  """Evaluates the property's clauses on the REAL answers of `queries` (all ("query","has",n,G)) on the
  graph built by `ops`.  Returns a list of failure dicts.  A failure of clause 3/4 on a cyclic graph with
  conditions that the model reproduces is the characterised known finding and is not returned."""
  muts = [o for o in ops if o[0] != "query"]
  base = tg.Real(cfg)
  for o in muts:
    base.apply(o)
  R = tgref.RefGraph(base)
  acyc = not R.cyclic()
  conds = R.has_conditions()
  out = []

  def explained_by_known(qs, reals):
    if acyc or not conds or drv is None:
      return False
    lines = tg.driver_lines(muts, None)
    dt = tg.DataTable()
    for q in qs:
      lines.append("cold " + tg.driver_line(q, dt)[len("query "):])
    try:
      return drv.batch(lines) == reals
    except Exception:
      return False

  for q in queries:
    if q[0] != "query" or q[1] != "has" or not base.ok(q):
      continue
    n, G = q[2], tuple(q[3])
    a = _fresh_answer(cfg, muts, q)
    acc = a == "1"
    fail = None
    if acyc and not conds:
      e = R.explained(n, G, False)
      if e != acc:
        fail = {"clause": "exactness on an acyclic unconditioned graph", "real": a, "reference_explained": e}
    elif acyc and conds:
      e = R.explained(n, G, True)
      if e and not acc:
        fail = {"clause": "never rejects an explained combination (acyclic, with conditions)", "real": a,
                "reference_explained": e}
    if fail is None and acc:
      reach = R.back_reach(n)
      unreachable = [b for b in G if not any(w in reach for (w, _) in R.origins[b])]
      if unreachable and not explained_by_known([q], [a]):
        fail = {"clause": "an accepted combination has every goal reachable", "real": a, "unreachable": unreachable}
    if fail is None and acc:
      for r in range(len(G)):
        for sub in itertools.combinations(G, r):
          sq = ("query", "has", n, sub)
          sa = _fresh_answer(cfg, muts, sq)
          if sa != "1" and not explained_by_known([q, sq], [a, sa]):
            fail = {"clause": "every subset of an accepted combination is accepted", "real": a,
                    "rejected_subset": list(sub)}
            break
        if fail:
          break
    if fail:
      fail.update({"ops": [tg.op_text(o) for o in muts], "query": tg.op_text(q)})
      out.append(fail)
      if len(out) >= limit:
        break
  return out


def witnesses(res):
  cfg = common.load_pytype()
  known, fixed = common.known_findings("C07")
  replayed = []
  for e in known:
    w = e["witness"]
    ops = [tg.parse_op(t) for t in w["ops"]]
    still = False
    if w["clause"] == "reachable":
      q = tg.parse_op(w["query"])
      a = _fresh_answer(cfg, ops, q)
      base = tg.Real(cfg)
      base.run(ops)
      R = tgref.RefGraph(base)
      reach = R.back_reach(q[3] if q[1] == "visible" else q[2])
      goals = [q[2]] if q[1] == "visible" else list(q[3])
      still = a == "1" and any(not any(x in reach for (x, _) in R.origins[b]) for b in goals)
    elif w["clause"] == "subset":
      a = _fresh_answer(cfg, ops, tg.parse_op(w["query"]))
      s = _fresh_answer(cfg, ops, tg.parse_op(w["subset_query"]))
      still = a == "1" and s == "0"
    replayed.append({"id": e["id"], "still_fails": still})
    if still:
      res.known_lines.append(e["what"])
  for e in fixed:
    replayed.append({"id": e["id"], "note": "no fixed entries expected for C07"})
  res.cov["witnesses_replayed"] = replayed


# ------------------------------------------------------------------------------------------------
# S — search with the independent reference
# ------------------------------------------------------------------------------------------------
def _shrink_failure(cfg, drv, f):
  ops = [tg.parse_op(t) for t in f["ops"]]
  q = tg.parse_op(f["query"])
  clause = f["clause"]

  def fails(cand):
    r = clause_failures(cfg, cand, [q], drv, limit=1)
    return bool(r) and r[0]["clause"] == clause
  small = common.ddmin(ops, fails, budget_s=20.0)
  r = clause_failures(cfg, small, [q], drv, limit=1)
  return r[0] if r else f


def search(res, rng, disagreements, pfail):
  cfg = common.load_pytype()
  drv = common.Driver("drv_c07")
  t0 = time.time()
  budget = 150.0
  found = []
  cands = []
  for d in disagreements:
    ops = [tg.parse_op(t) for t in d["ops"]]
    q = tg.parse_op(d["query"])
    qs = []
    if q[1] == "has":
      qs.append(q)
    elif q[1] == "visible":
      qs.append(("query", "has", q[3], (q[2],)))
    sh = tg.Real(cfg)
    sh.run(ops)
    qs += [x for x in all_queries(len(sh.nodes), 0, min(len(sh.b), 6), 3) if x[1] == "has"][:400]
    cands.append((ops, qs))
  for case in itertools.islice(micro_family(), 0, None, 7):
    cands.append((case[1], [x for x in case[2] if x[1] == "has"]))
  for _ in range(300):
    case = tiny_member(rng)
    cands.append((case[1], [x for x in case[2] if x[1] == "has"]))
  for _ in range(40):
    case = random_member(cfg, rng)
    cands.append((case[1], [x for x in case[2] if x[1] == "has"]))
  examined = 0
  for ops, qs in cands:
    if time.time() - t0 > budget or len(found) >= 2:
      break
    examined += 1
    try:
      fs = clause_failures(cfg, ops, qs, drv, limit=1)
    except Exception as e:   # a crash of the real code is itself a finding
      found.append({"ops": [tg.op_text(o) for o in ops], "exception": repr(e)})
      break
    for f in fs:
      found.append(_shrink_failure(cfg, drv, f))
  res.cov["search"] = {"graphs_examined": examined, "oracle": "harness/tgref.py (explicit backward-path enumeration): "
                       "exactness on acyclic unconditioned graphs, never-rejects on acyclic conditioned graphs, "
                       "every goal reachable, subset closure; clause 3/4 failures on cyclic conditioned graphs that "
                       "the model reproduces are the listed known finding and are not reported",
                       "wall_s": round(time.time() - t0, 1)}
  return found


def main():
  try:
    return common.run_check(
        "C07", REQUIRED, correspond, witnesses, search,
        trusted=["hand-written model of solver.cc / typegraph.cc (Graph.lean, Solver.lean); tied by exact-answer "
                 "correspondence on fresh programs",
                 "heap-address order of Binding objects (orders std::set<SourceSet>) is measured on the real program "
                 "and passed to the model as address ranks",
                 "no 64-bit collisions of State::Hash (orders seen_states); PathCacheTrie is a pure memo",
                 "S oracle harness/tgref.py is an independent declarative reference (validated offline on ~150k acyclic "
                 "unconditioned queries: exact agreement)"],
        assumptions=["node/binding/variable ids are dense and assigned in creation order",
                     "variables stay below MAX_VAR_SIZE-1 = 63 bindings (generators: <= 20)",
                     "theorems: solve_iff_expl / solve_subset need a well-formed ACYCLIC graph WITHOUT node conditions and "
                     "source-set ids in range (IdsOK); solve_goals_reachable is proved for (no conditions, cycles allowed) "
                     "and for (acyclic, conditions allowed); with conditions on a cycle it is false (known findings "
                     "c07-provisional-true-*); 'never rejects an explained combination' with conditions has no theorem"])
  except common.Timeout as e:
    print("TIMEOUT property=C07 %s" % e)
    return 2


if __name__ == "__main__":
  sys.exit(main())
