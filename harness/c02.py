"""C02 — annotations are enforced exactly (DESIGN.md §5 C02).

Fragment F2 (shared with lean/PytypeModel/Sem/Matcher.lean `InF2`):
  Ann := int|float|complex|str|bytes|bool|None|object|Any | K<i> | Optional a | Union as | list a | set a |
         frozenset a | dict k v | tuple[a, ...] | tuple[a1..an] | Sequence a | Iterable a | Collection a |
         Mapping k v | Callable | type[K<i>] | type[Any]
  values: ground expressions (scalar literals, None, list/tuple/set/dict displays, frozenset([...]), K<i>(),
          class objects, lambdas / module-level functions).

Internal representation (Python tuples) and the two renderings (Python source, Lean driver token string)
are defined here once; `render_*` is the only place that knows the concrete syntax.
"""
import collections.abc
import itertools
import json
import multiprocessing
import os
import random
import sys
import time

from harness import common

REQUIRED = []  # filled in below, after the theorem list

NCLS = 5
SITES = ("arg", "ret", "asg")
ERR = {"arg": "wrong-arg-types", "ret": "bad-return-type", "asg": "annotation-type-mismatch"}

# ----------------------------------------------------------------------------------------------
# annotations
# ----------------------------------------------------------------------------------------------
SCALAR_ANNS = ["int", "float", "complex", "str", "bytes", "bool", "none", "object", "any", "callable", "typeany"]
GEN1 = ["list", "set", "fset", "tuphom", "seq", "iter", "coll"]
GEN2 = ["dict", "map"]
_PY_ANN = {"int": "int", "float": "float", "complex": "complex", "str": "str", "bytes": "bytes", "bool": "bool",
           "none": "None", "object": "object", "any": "Any", "callable": "Callable", "typeany": "type[Any]"}
_PY_GEN = {"list": "list", "set": "set", "fset": "frozenset", "seq": "Sequence", "iter": "Iterable",
           "coll": "Collection", "dict": "dict", "map": "Mapping"}


def ann_py(a):
  k = a[0]
  if k in _PY_ANN:
    return _PY_ANN[k]
  if k == "cls":
    return "K%d" % a[1]
  if k == "typec":
    return "type[K%d]" % a[1]
  if k == "typeu":
    opts = ["K%d" % i for i in a[1]] + [_PY_ANN[b] for b in a[2]]
    if len(opts) == 2 and opts[1] == "None":
      return "type[Optional[%s]]" % opts[0]
    return "type[Union[%s]]" % ", ".join(opts)
  if k == "opt":
    return "Optional[%s]" % ann_py(a[1])
  if k == "union":
    return "Union[%s]" % ", ".join(ann_py(x) for x in a[1])
  if k == "tuphom":
    return "tuple[%s, ...]" % ann_py(a[1])
  if k == "tup":
    return "tuple[%s]" % (", ".join(ann_py(x) for x in a[1]) if a[1] else "()")
  if k in GEN1:
    return "%s[%s]" % (_PY_GEN[k], ann_py(a[1]))
  if k in GEN2:
    return "%s[%s, %s]" % (_PY_GEN[k], ann_py(a[1]), ann_py(a[2]))
  raise ValueError(a)


def ann_tok(a):
  """prefix token string for the Lean driver"""
  k = a[0]
  if k in _PY_ANN:
    return k
  if k in ("cls", "typec"):
    return "%s %d" % (k, a[1])
  if k == "typeu":
    return "typeu %d %s %d %s" % (len(a[1]), " ".join(map(str, a[1])), len(a[2]), " ".join(a[2]))
  if k == "opt":
    return "opt " + ann_tok(a[1])
  if k in ("union", "tup"):
    return "%s %d %s" % (k, len(a[1]), " ".join(ann_tok(x) for x in a[1]))
  if k in GEN1:
    return "%s %s" % (k, ann_tok(a[1]))
  if k in GEN2:
    return "%s %s %s" % (k, ann_tok(a[1]), ann_tok(a[2]))
  raise ValueError(a)


def ann_depth(a):
  k = a[0]
  if k in _PY_ANN or k in ("cls", "typec", "typeu"):
    return 0
  if k in ("union", "tup"):
    return 1 + max([ann_depth(x) for x in a[1]] + [0])
  return 1 + max(ann_depth(x) for x in a[1:])


def ann_hash(a):
  return json.dumps(a)


# ----------------------------------------------------------------------------------------------
# values
# ----------------------------------------------------------------------------------------------
def val_py(v):
  k = v[0]
  if k == "int":
    return str(v[1])
  if k == "bool":
    return "True" if v[1] else "False"
  if k == "float":
    return "%d.5" % v[1]           # never equal to an int
  if k == "complex":
    return "%dj" % (v[1] + 1)      # non-zero imaginary part: never equal to a real number
  if k == "str":
    return json.dumps(v[1])
  if k == "bytes":
    return "b" + json.dumps(v[1])
  if k == "none":
    return "None"
  if k == "inst":
    return "K%d()" % v[1]
  if k == "clsobj":
    return "K%d" % v[1]
  if k == "bclsobj":
    return v[1]
  if k == "func":
    return ["(lambda: 0)", "(lambda x: x)", "fn0"][v[1]]
  if k == "list":
    return "[%s]" % ", ".join(val_py(x) for x in v[1])
  if k == "tuple":
    return "(%s%s)" % (", ".join(val_py(x) for x in v[1]), "," if len(v[1]) == 1 else "")
  if k == "set":
    return "{%s}" % ", ".join(val_py(x) for x in v[1]) if v[1] else "set()"
  if k == "fset":
    return "frozenset([%s])" % ", ".join(val_py(x) for x in v[1]) if v[1] else "frozenset()"
  if k == "dict":
    return "{%s}" % ", ".join("%s: %s" % (val_py(a), val_py(b)) for a, b in v[1])
  raise ValueError(v)


# builtin class objects: classes without `__iter__` only.  (`str`/`tuple`/`list` the *class objects* against Iterable[...]
# go through pytype's structural protocol matcher, whose verdict for them depends on what was matched earlier in the
# module; they are outside F2.)
BUILTIN_CLSOBJ = ["int", "float", "bool"]


def val_tok(v):
  k = v[0]
  if k in ("int", "float", "complex", "inst", "clsobj", "func"):
    return "%s %d" % (k, v[1])
  if k == "bool":
    return "bool %d" % (1 if v[1] else 0)
  if k == "str":
    return "str %d" % len(v[1])
  if k == "bytes":
    return "bytes %d" % len(v[1])
  if k == "none":
    return "none"
  if k == "bclsobj":
    return "bclsobj " + v[1]
  if k in ("list", "tuple", "set", "fset"):
    return "%s %d %s" % (k, len(v[1]), " ".join(val_tok(x) for x in v[1]))
  if k == "dict":
    return "dict %d %s" % (len(v[1]), " ".join(val_tok(a) + " " + val_tok(b) for a, b in v[1]))
  raise ValueError(v)


def val_depth(v):
  k = v[0]
  if k in ("list", "tuple", "set", "fset"):
    return 1 + max([val_depth(x) for x in v[1]] + [0])
  if k == "dict":
    return 1 + max([max(val_depth(a), val_depth(b)) for a, b in v[1]] + [0])
  return 0


def hashable(v):
  k = v[0]
  if k in ("list", "set", "dict"):
    return False
  if k in ("tuple", "fset"):
    return all(hashable(x) for x in v[1])
  return True


def py_key(v):
  """Python-equality class of a hashable value (1 == True, 0 == False; floats/complex never collide by
  construction): used to keep displays free of keys that CPython would merge."""
  k = v[0]
  if k in ("int", "bool"):
    return ("num", int(v[1]))
  if k in ("tuple",):
    return (k, tuple(py_key(x) for x in v[1]))
  if k == "fset":
    return (k, frozenset(py_key(x) for x in v[1]))
  return (k,) + tuple(v[1:])


def py_distinct(v):
  """no set display / dict display / frozenset argument contains two keys that are equal in Python"""
  k = v[0]
  if k in ("list", "tuple"):
    return all(py_distinct(x) for x in v[1])
  if k in ("set", "fset"):
    keys = [py_key(x) for x in v[1]]
    return len(set(keys)) == len(keys) and all(py_distinct(x) for x in v[1])
  if k == "dict":
    keys = [py_key(a) for a, _ in v[1]]
    return len(set(keys)) == len(keys) and all(py_distinct(a) and py_distinct(b) for a, b in v[1])
  return True


# ----------------------------------------------------------------------------------------------
# hierarchy: NCLS classes, bases among earlier classes (single + multiple inheritance), valid C3
# ----------------------------------------------------------------------------------------------
def gen_hierarchy(rng):
  """returns bases: list of lists (class i's direct bases, indices < i), and the CPython MROs."""
  while True:
    bases = [[]]
    for i in range(1, NCLS):
      r = rng.random()
      if r < 0.25:
        b = []
      elif r < 0.65 or i < 2:
        b = [rng.randrange(i)]
      else:
        b = rng.sample(range(i), 2)
      bases.append(b)
    if not any(len(b) == 2 for b in bases):
      bases[NCLS - 1] = rng.sample(range(NCLS - 1), 2)
    m = hierarchy_mros(bases)
    if m is not None:
      return bases, m


def hierarchy_src(bases):
  return "".join("class K%d(%s): pass\n" % (i, ", ".join("K%d" % b for b in bs)) for i, bs in enumerate(bases))


def hierarchy_mros(bases):
  env = {}
  try:
    exec(hierarchy_src(bases), env)
  except TypeError:
    return None
  return [[int(c.__name__[1:]) for c in env["K%d" % i].__mro__ if c is not object] for i in range(len(bases))]


def hier_tok(mros):
  return "hier %d %s" % (len(mros), " ".join("%d %s" % (len(m), " ".join(map(str, m))) for m in mros))


HEADER = ("from typing import Any, Optional, Union, Sequence, Iterable, Collection, Mapping, Callable\n")


def prelude(bases):
  return HEADER + hierarchy_src(bases) + "def fn0(a, b=0): return a\n"


# ----------------------------------------------------------------------------------------------
# S oracle: independent PEP-484 membership on the REAL run-time value
# ----------------------------------------------------------------------------------------------
def runtime_env(bases):
  env = {}
  exec(prelude(bases), env)
  return env


def member(x, a, env):
  """Is the run-time object `x` an inhabitant of annotation `a` (PEP 484)?  isinstance/collections.abc
  based; written independently of the Lean model."""
  k = a[0]
  if k in ("any", "object"):
    return True
  if k == "int":
    return isinstance(x, int)
  if k == "float":
    return isinstance(x, (int, float))
  if k == "complex":
    return isinstance(x, (int, float, complex))
  if k == "str":
    return isinstance(x, str)
  if k == "bytes":
    return isinstance(x, bytes)
  if k == "bool":
    return isinstance(x, bool)
  if k == "none":
    return x is None
  if k == "cls":
    return isinstance(x, env["K%d" % a[1]])
  if k == "typec":
    return isinstance(x, type) and issubclass(x, env["K%d" % a[1]])
  if k == "typeu":
    # a class object inhabits type[Union[..]] iff it is a subclass of an option (numeric promotion int -> float ->
    # complex applies to the builtin scalar classes as it does to their instances)
    if not isinstance(x, type):
      return False
    if any(issubclass(x, env["K%d" % i]) for i in a[1]):
      return True
    pyt = {"int": int, "float": float, "complex": complex, "str": str, "bytes": bytes, "bool": bool, "none": type(None)}
    for b in a[2]:
      if issubclass(x, pyt[b]) or (b == "float" and issubclass(x, int)) or (b == "complex" and issubclass(x, (int, float))):
        return True
    return False
  if k == "typeany":
    return isinstance(x, type)
  if k == "callable":
    return callable(x)
  if k == "opt":
    return x is None or member(x, a[1], env)
  if k == "union":
    return any(member(x, o, env) for o in a[1])
  if k in ("list", "set", "fset"):
    t = {"list": list, "set": set, "fset": frozenset}[k]
    return isinstance(x, t) and all(member(e, a[1], env) for e in x)
  if k == "tuphom":
    return isinstance(x, tuple) and all(member(e, a[1], env) for e in x)
  if k == "tup":
    return isinstance(x, tuple) and len(x) == len(a[1]) and all(member(e, o, env) for e, o in zip(x, a[1]))
  if k in ("seq", "iter", "coll"):
    abc = {"seq": collections.abc.Sequence, "iter": collections.abc.Iterable, "coll": collections.abc.Collection}[k]
    if not isinstance(x, abc):
      return False
    elems = list(x)
    # str / bytes are non-generic: their declared element type (str / int) counts even when empty
    if isinstance(x, str):
      elems.append("x")
    elif isinstance(x, bytes):
      elems.append(0)
    return all(member(e, a[1], env) for e in elems)
  if k in ("dict", "map"):
    t = dict if k == "dict" else collections.abc.Mapping
    return isinstance(x, t) and all(member(kk, a[1], env) and member(vv, a[2], env) for kk, vv in x.items())
  raise ValueError(a)


def oracle(bases, ann, val, env=None):
  env = env or runtime_env(bases)
  x = eval(val_py(val), env)
  return member(x, ann, env)


# ----------------------------------------------------------------------------------------------
# generators (all randomness from the rng passed in)
# ----------------------------------------------------------------------------------------------
TYPEU_SCALARS = ["int", "float", "complex", "str", "bool", "none"]


def gen_typeu(rng, prefer=None):
  """`type[Union[...]]` over user classes and builtin scalar classes (>= 2 options)"""
  while True:
    ks = sorted(rng.sample(range(NCLS), rng.choice([0, 1, 1, 2])))
    bs = rng.sample(TYPEU_SCALARS, rng.choice([0, 1, 1, 2]))
    if prefer is not None and rng.random() < 0.5:
      if isinstance(prefer, int) and prefer not in ks:
        ks = sorted(ks + [prefer])
      elif isinstance(prefer, str) and prefer not in bs:
        bs = bs + [prefer]
    if "none" in bs:  # printed last (type[Optional[K]])
      bs = [b for b in bs if b != "none"] + ["none"]
    if len(ks) + len(bs) >= 2:
      return ("typeu", ks, bs)


def atom_anns():
  fixed = [("typeu", [0, 2], []), ("typeu", [1], ["int"]), ("typeu", [], ["int", "str"]), ("typeu", [], ["float", "str"]),
           ("typeu", [0], ["none"]), ("typeu", [NCLS - 1], ["bool", "complex"])]
  return ([(s,) for s in SCALAR_ANNS] + [("cls", i) for i in range(NCLS)] + [("typec", i) for i in range(NCLS)] + fixed)


def gen_ann(rng, depth):
  """random annotation of depth <= depth"""
  if depth == 0 or rng.random() < 0.25:
    r = rng.random()
    if r < 0.62:
      return (rng.choice(SCALAR_ANNS),)
    if r < 0.87:
      return ("cls", rng.randrange(NCLS))
    if r < 0.94:
      return ("typec", rng.randrange(NCLS))
    return gen_typeu(rng)
  k = rng.choice(GEN1 + GEN2 + ["opt", "union", "union", "tup", "tup"])
  if k in GEN1 or k == "opt":
    return (k, gen_ann(rng, depth - 1))
  if k in GEN2:
    return (k, gen_ann(rng, depth - 1), gen_ann(rng, depth - 1))
  n = rng.choice([2, 2, 3]) if k == "union" else rng.choice([0, 1, 2, 2, 3])
  return (k, [gen_ann(rng, depth - 1) for _ in range(n)])


def gen_scalar(rng, hashable_only=False):
  r = rng.randrange(14)
  if r == 0:
    return ("int", rng.choice([0, 1, 7]))
  if r == 1:
    return ("bool", rng.random() < 0.5)
  if r == 2:
    return ("float", rng.choice([0, 2]))
  if r == 3:
    return ("complex", rng.choice([0, 1]))
  if r in (4, 5):
    return ("str", rng.choice(["", "ab"]))
  if r == 6:
    return ("bytes", rng.choice(["", "ab"]))
  if r in (7, 8):
    return ("none",)
  if r in (9, 10):
    return ("inst", rng.randrange(NCLS))
  if r == 11:
    return ("clsobj", rng.randrange(NCLS))
  if r == 12:
    return ("bclsobj", rng.choice(BUILTIN_CLSOBJ))
  return ("func", rng.randrange(3))


def gen_val(rng, depth, need_hashable=False):
  if depth == 0 or rng.random() < 0.3:
    return gen_scalar(rng)
  kinds = ["tuple", "tuple", "fset"] if need_hashable else ["list", "list", "tuple", "tuple", "set", "fset", "dict", "dict"]
  k = rng.choice(kinds)
  n = rng.choice([0, 1, 1, 2, 2, 3])
  for _ in range(20):
    if k in ("list", "tuple"):
      v = (k, [gen_val(rng, depth - 1, need_hashable) for _ in range(n)])
    elif k in ("set", "fset"):
      v = (k, [gen_val(rng, depth - 1, True) for _ in range(n)])
    else:
      v = (k, [(gen_val(rng, depth - 1, True), gen_val(rng, depth - 1)) for _ in range(n)])
    if py_distinct(v):
      return v
  return (k, [])


def ann_near(rng, v, depth, noise=0.12):
  """annotation correlated with the shape of `v` (so that deep positions decide the outcome)"""
  if rng.random() < noise:
    return gen_ann(rng, depth)
  k = v[0]
  r = rng.random()
  if depth > 0 and r < 0.12:
    return ("opt", ann_near(rng, v, depth - 1, noise))
  if depth > 0 and r < 0.3:
    opts = [ann_near(rng, v, depth - 1, noise), gen_ann(rng, depth - 1)]
    if rng.random() < 0.3:
      opts.append(gen_ann(rng, depth - 1))
    rng.shuffle(opts)
    return ("union", opts)
  if k in ("list", "tuple", "set", "fset", "dict") and depth == 0:
    return (rng.choice(["object", "any", "int", "callable"]),)
  def elem(xs):
    if not xs:
      return gen_ann(rng, depth - 1)
    return ann_near(rng, rng.choice(xs), depth - 1, noise)
  if k == "list":
    return (rng.choice(["list", "list", "seq", "iter", "coll", "tuphom"]), elem(v[1]))
  if k == "tuple":
    if rng.random() < 0.5:
      n = len(v[1]) if rng.random() < 0.85 else rng.choice([0, 1, 2, 3])
      return ("tup", [ann_near(rng, v[1][i], depth - 1, noise) if i < len(v[1]) else gen_ann(rng, depth - 1)
                      for i in range(n)])
    return (rng.choice(["tuphom", "tuphom", "seq", "iter", "coll", "list"]), elem(v[1]))
  if k == "set":
    return (rng.choice(["set", "set", "fset", "iter", "coll", "seq"]), elem(v[1]))
  if k == "fset":
    return (rng.choice(["fset", "fset", "set", "iter", "coll"]), elem(v[1]))
  if k == "dict":
    if rng.random() < 0.3:
      return (rng.choice(["iter", "coll", "seq"]), elem([a for a, _ in v[1]]))
    return (rng.choice(["dict", "map"]), elem([a for a, _ in v[1]]), elem([b for _, b in v[1]]))
  table = {
      "int": ["int", "float", "complex", "bool", "object", "str"],
      "bool": ["bool", "int", "float", "complex", "none"],
      "float": ["float", "complex", "int"],
      "complex": ["complex", "float"],
      "str": ["str", "bytes", "object", "any"],
      "bytes": ["bytes", "str"],
      "none": ["none", "bool", "int", "object", "any"],
      "func": ["callable", "object", "typeany", "any"],
      "bclsobj": ["typeany", "callable", "object", "int", "str"],
  }
  if k == "bclsobj" and rng.random() < 0.5:
    return gen_typeu(rng, prefer=v[1] if v[1] in TYPEU_SCALARS else None)
  if k in table:
    if k in ("str", "bytes") and depth > 0 and rng.random() < 0.45:
      return (rng.choice(["seq", "iter", "coll"]),
              rng.choice([("str",), ("int",), ("object",), ("any",), ("bytes",), ("seq", ("str",)), ("iter", ("str",)),
                          ("union", [("str",), ("int",)]), ("opt", ("str",))] if depth > 1 else
                         [("str",), ("int",), ("object",), ("any",), ("bytes",)]))
    return (rng.choice(table[k]),)
  if k == "inst":
    return rng.choice([("cls", v[1]), ("cls", rng.randrange(NCLS)), ("cls", rng.randrange(NCLS)), ("object",),
                       ("callable",), ("typec", v[1])])
  if k == "clsobj":
    return rng.choice([("typec", v[1]), ("typec", rng.randrange(NCLS)), ("typec", rng.randrange(NCLS)), ("typeany",),
                       ("callable",), ("cls", v[1]), ("object",), gen_typeu(rng, prefer=v[1]), gen_typeu(rng),
                       gen_typeu(rng)])
  raise ValueError(v)


def in_f2_val(v):
  """value side of fragment F2 (Lean: `Val.inF2`): no `frozenset(...)` call anywhere inside a *set display*
  (convert.build_set pastes the element bindings with their original origins; a later call moves to a new CFG node
  and thereby hides the earlier elements — known finding c02-set-display-hidden-elements)"""
  for x in sub_vals(v):
    if x[0] == "set" and any(y[0] == "fset" for e in x[1] for y in sub_vals(e)):
      return False
  return True


def gen_member(rng, a, mros, depth, need_hashable=False):
  """a value that inhabits `a` (None if none can be built within the constraints)"""
  k = a[0]
  def many(n_choices=(0, 1, 1, 2, 2, 3), **kw):
    out = []
    for _ in range(rng.choice(n_choices)):
      x = gen_member(rng, a[1], mros, depth - 1, **kw)
      if x is None:
        return out
      out.append(x)
    return out
  if k in ("object", "any"):
    return gen_val(rng, max(depth, 0), need_hashable)
  if k == "int":
    return rng.choice([("int", rng.choice([0, 1, 7])), ("int", 7), ("bool", rng.random() < 0.5)])
  if k == "float":
    return rng.choice([("float", rng.choice([0, 2])), ("int", 1), ("bool", True)])
  if k == "complex":
    return rng.choice([("complex", rng.choice([0, 1])), ("float", 0), ("int", 0), ("bool", False)])
  if k == "str":
    return ("str", rng.choice(["", "ab"]))
  if k == "bytes":
    return ("bytes", rng.choice(["", "ab"]))
  if k == "bool":
    return ("bool", rng.random() < 0.5)
  if k == "none":
    return ("none",)
  if k == "callable":
    return rng.choice([("func", rng.randrange(3)), ("clsobj", rng.randrange(NCLS)), ("bclsobj", rng.choice(BUILTIN_CLSOBJ))])
  if k == "typeany":
    return rng.choice([("clsobj", rng.randrange(NCLS)), ("bclsobj", rng.choice(BUILTIN_CLSOBJ))])
  if k in ("cls", "typec"):
    subs = [c for c in range(len(mros)) if a[1] in mros[c]]
    return ("inst" if k == "cls" else "clsobj", rng.choice(subs))
  if k == "typeu":
    cands = [("clsobj", c) for c in range(len(mros)) if any(i in mros[c] for i in a[1])]
    sub = {"int": ["int", "bool"], "float": ["float", "int", "bool"], "complex": ["float", "int", "bool"], "bool": ["bool"]}
    cands += [("bclsobj", x) for b in a[2] for x in sub.get(b, [])]
    return rng.choice(cands) if cands else None
  if k == "opt":
    return ("none",) if rng.random() < 0.4 else gen_member(rng, a[1], mros, depth, need_hashable)
  if k == "union":
    return gen_member(rng, rng.choice(a[1]), mros, depth, need_hashable)
  if depth <= 0:
    empties = {"list": ("list", []), "set": ("set", []), "fset": ("fset", []), "tuphom": ("tuple", []),
               "seq": ("tuple", []), "iter": ("tuple", []), "coll": ("tuple", []), "dict": ("dict", []), "map": ("dict", [])}
    if k == "tup":
      return ("tuple", []) if not a[1] else None
    v = empties[k]
    return v if (hashable(v) or not need_hashable) else None
  if k == "list":
    return None if need_hashable else ("list", many())
  if k == "set":
    return None if need_hashable else ("set", many(need_hashable=True))
  if k == "fset":
    return ("fset", many(need_hashable=True))
  if k == "tuphom":
    return ("tuple", many(need_hashable=need_hashable))
  if k == "tup":
    xs = [gen_member(rng, o, mros, depth - 1, need_hashable) for o in a[1]]
    return None if any(x is None for x in xs) else ("tuple", xs)
  if k in ("seq", "iter", "coll"):
    kinds = ["tuple", "tuple"] if need_hashable else ["list", "list", "tuple", "tuple"]
    if k != "seq":
      kinds += ["fset"] if need_hashable else ["set", "fset", "dictkeys"]
    kind = rng.choice(kinds)
    if kind == "dictkeys":
      ks = many(need_hashable=True)
      return ("dict", [(x, gen_val(rng, 0)) for x in ks])
    if kind in ("set", "fset"):
      return (kind, many(need_hashable=True))
    return (kind, many(need_hashable=need_hashable))
  if k in ("dict", "map"):
    if need_hashable:
      return None
    out = []
    for _ in range(rng.choice([0, 1, 1, 2, 2, 3])):
      kk = gen_member(rng, a[1], mros, depth - 1, True)
      vv = gen_member(rng, a[2], mros, depth - 1)
      if kk is None or vv is None:
        break
      out.append((kk, vv))
    return ("dict", out)
  raise ValueError(a)


def positions(v, path=()):
  yield path
  k = v[0]
  if k in ("list", "tuple", "set", "fset"):
    for i, x in enumerate(v[1]):
      yield from positions(x, path + (i,))
  elif k == "dict":
    for i, (a, b) in enumerate(v[1]):
      yield from positions(a, path + ((i, 0),))
      yield from positions(b, path + ((i, 1),))


def replace_at(v, path, f):
  """value with the sub-value at `path` replaced by f(sub-value, must_be_hashable)"""
  def go(v, path, hashable_ctx):
    if not path:
      return f(v, hashable_ctx)
    k, p = v[0], path[0]
    if k == "dict":
      i, j = p
      kv = list(v[1][i])
      kv[j] = go(kv[j], path[1:], hashable_ctx or j == 0)
      return (k, list(v[1][:i]) + [tuple(kv)] + list(v[1][i + 1:]))
    xs = list(v[1])
    xs[p] = go(xs[p], path[1:], hashable_ctx or k in ("set", "fset"))
    return (k, xs)
  return go(v, path, False)


def inject_fault(rng, v):
  """one local change somewhere in the value: another scalar, a container of another kind, one element more/less"""
  path = rng.choice(list(positions(v)))
  def f(x, hctx):
    r = rng.random()
    k = x[0]
    if k in ("list", "tuple", "set", "fset") and r < 0.5:
      if r < 0.2 and x[1]:
        i = rng.randrange(len(x[1]))
        return (k, list(x[1][:i]) + list(x[1][i + 1:]))                  # one element less
      if r < 0.35:
        return (k, list(x[1]) + [gen_val(rng, 0, hctx or k in ("set", "fset"))])   # one element more
      kinds = ["tuple", "fset"] if hctx else ["list", "tuple", "set", "fset"]
      k2 = rng.choice([q for q in kinds if q != k] or kinds)
      if k2 in ("set", "fset") and not all(hashable(e) for e in x[1]):
        k2 = "tuple" if hctx else "list"
      return (k2, list(x[1]))                                            # same elements, another container
    return gen_val(rng, 0 if r < 0.85 else 1, hctx)                     # an unrelated (mostly scalar) value
  return replace_at(v, path, f)


def gen_pair(rng, mros, adepth=2, vdepth=2):
  """one (annotation, value) pair: 40 % a member built from the annotation, 35 % such a member with one injected
  fault, 25 % value first and an annotation derived from its shape (with perturbations)"""
  for _ in range(50):
    r = rng.random()
    if r < 0.75:
      a = gen_ann(rng, adepth)
      v = gen_member(rng, a, mros, vdepth)
      if v is None:
        continue
      if r >= 0.4:
        v = inject_fault(rng, v)
    else:
      v = gen_val(rng, rng.choice([0, 1, 1, 2, 2, 2]))
      a = ann_near(rng, v, adepth) if rng.random() < 0.8 else gen_ann(rng, adepth)
    if val_depth(v) <= vdepth and py_distinct(v) and in_f2_val(v):
      try:
        eval(val_py(v), {"K%d" % i: type("K%d" % i, (), {}) for i in range(NCLS)} | {"fn0": len})
      except TypeError:      # unhashable key after a fault injection
        continue
      return a, v
  return ("int",), ("int", 0)


# ----------------------------------------------------------------------------------------------
# module construction: ONE check per line, so (error class, line) identifies (pair, site)
# ----------------------------------------------------------------------------------------------
# variant sites: the same three enforcement points reached through other call/assignment shapes.  The model has
# one prediction per enforcement point (arg / ret / asg); every variant must agree with the prediction of its
# base site (pytype routes them through the same matcher call).
VARIANTS = ("arg.kwo", "arg.kw", "arg.pos", "arg.meth", "arg.star", "ret.meth", "asg.re")


def base_site(s):
  return s.split(".")[0]


ALL_SITES = SITES + VARIANTS


def build_module(bases, pairs, sites=SITES):
  """returns (source, {line: (pair index, site)})"""
  lines = prelude(bases).rstrip("\n").split("\n")
  where = {}
  for i, (a, _) in enumerate(pairs):
    A = ann_py(a)
    if "arg" in sites or "arg.kw" in sites:
      lines.append("def fa_%d(x: %s): pass" % (i, A))
    if "arg.kwo" in sites:
      lines.append("def fk_%d(p=0, *, x: %s): pass" % (i, A))
    if "arg.pos" in sites:
      lines.append("def fp_%d(x: %s, /, q=0): pass" % (i, A))
    if "arg.star" in sites:
      lines.append("def fs_%d(*xs: %s): pass" % (i, A))
    if "arg.meth" in sites or "ret.meth" in sites:
      lines.append("class M_%d:" % i)
      lines.append("  def m(self, x: %s): pass" % A)
  for i, (a, v) in enumerate(pairs):
    A, V = ann_py(a), val_py(v)
    def add(site, text):
      if site in sites:
        lines.append(text)
        where[len(lines)] = (i, site)
    add("arg", "fa_%d(%s)" % (i, V))
    add("ret", "def fr_%d() -> %s: return %s" % (i, A, V))
    add("asg", "va_%d: %s = %s" % (i, A, V))
    add("arg.kwo", "fk_%d(x=%s)" % (i, V))
    add("arg.kw", "fa_%d(x=%s)" % (i, V))
    add("arg.pos", "fp_%d(%s)" % (i, V))
    add("arg.meth", "M_%d().m(%s)" % (i, V))
    add("arg.star", "fs_%d(%s)" % (i, V))
    if "ret.meth" in sites:
      lines.append("class R_%d:" % i)
      lines.append("  def m(self) -> %s: return %s" % (A, V))
      where[len(lines)] = (i, "ret.meth")
    if "asg.re" in sites:
      lines.append("vb_%d: %s" % (i, A))
      lines.append("vb_%d = %s" % (i, V))
      where[len(lines)] = (i, "asg.re")
  return "\n".join(lines) + "\n", where


_OPTS = None


def _worker_init():
  global _OPTS
  common.load_pytype()
  from pytype import config
  _OPTS = config.Options.create(python_version=(3, 12))


def real_errors(src):
  """runs the real pytype on `src`; returns sorted list of (error name, line)"""
  if _OPTS is None:
    _worker_init()
  from pytype import io
  ret, _ = io.generate_pyi(src, _OPTS)
  return sorted({(e.name, e.line) for e in ret.context.errorlog.unique_sorted_errors()})


def _run_job(job):
  bases, pairs, sites = job
  src, where = build_module(bases, pairs, sites)
  try:
    errs = real_errors(src)
  except Exception as e:  # a crash of the real code is reported as such
    return {"crash": repr(e), "src": src}
  obs = {}
  stray = []
  for name, line in errs:
    if line in where:
      obs.setdefault(where[line], []).append(name)
    else:
      stray.append((name, line))
  return {"obs": [[list(k), sorted(v)] for k, v in obs.items()], "stray": stray}


def _run_job_idx(ij):
  return ij[0], _run_job(ij[1])


class _Alarm(Exception):
  pass


def _alarm_handler(signum, frame):
  raise _Alarm()


def run_real(jobs, procs=16, stall_s=None):
  """jobs: list of (bases, pairs, sites); returns per job {"obs": {(i, site): [error names]}, "stray": [...]}
  (absent key = no error), {"crash": ...} or {"timeout": True} (a module the real code did not finish within
  `stall_s` seconds after all other modules were done; normal is a few seconds)."""
  import signal
  stall_s = stall_s or int(os.environ.get("C02_STALL_S", "420"))
  outs = [None] * len(jobs)
  if len(jobs) <= 1:
    for i, j in enumerate(jobs):
      old = signal.signal(signal.SIGALRM, _alarm_handler)
      signal.alarm(stall_s)
      try:
        outs[i] = _run_job(j)
      except _Alarm:
        outs[i] = {"timeout": True}
      finally:
        signal.alarm(0)
        signal.signal(signal.SIGALRM, old)
  else:
    ctx = multiprocessing.get_context("fork")
    pool = ctx.Pool(min(procs, len(jobs)), initializer=_worker_init)
    try:
      it = pool.imap_unordered(_run_job_idx, list(enumerate(jobs)), chunksize=1)
      for _ in range(len(jobs)):
        try:
          i, o = it.next(timeout=stall_s)
        except multiprocessing.TimeoutError:
          break
        outs[i] = o
    finally:
      pool.terminate()
      pool.join()
  res = []
  for o in outs:
    if o is None:
      res.append({"timeout": True})
    elif "crash" in o or "timeout" in o:
      res.append(o)
    else:
      res.append({"obs": {(k[0], k[1]): v for k, v in o["obs"]}, "stray": o["stray"]})
  return res


# ----------------------------------------------------------------------------------------------
# the Lean model through its driver
# ----------------------------------------------------------------------------------------------
FIELDS = ("arg", "ret", "asg", "member", "inF2", "guard", "pyDistinct", "singleView", "valInF2")


def model_predict(drv, batches):
  """batches: list of (mros, pairs); returns list (per batch) of list (per pair) of dict field -> bool"""
  lines = []
  for mros, pairs in batches:
    lines.append(hier_tok(mros))
    for a, v in pairs:
      lines.append("chk %s | %s" % (ann_tok(a), val_tok(v)))
  out = drv.batch(lines)
  res, pos = [], 0
  for mros, pairs in batches:
    rows = []
    for _ in pairs:
      toks = out[pos].split()
      pos += 1
      if len(toks) != len(FIELDS):
        raise RuntimeError("driver answered %r" % out[pos - 1])
      rows.append({f: t == "1" for f, t in zip(FIELDS, toks)})
    res.append(rows)
  return res


# ----------------------------------------------------------------------------------------------
# helpers shared by K / W / S
# ----------------------------------------------------------------------------------------------
def sub_anns(a):
  yield a
  k = a[0]
  if k in ("union", "tup"):
    for x in a[1]:
      yield from sub_anns(x)
  elif k in GEN1 or k == "opt":
    yield from sub_anns(a[1])
  elif k in GEN2:
    yield from sub_anns(a[1])
    yield from sub_anns(a[2])


def sub_vals(v):
  yield v
  k = v[0]
  if k in ("list", "tuple", "set", "fset"):
    for x in v[1]:
      yield from sub_vals(x)
  elif k == "dict":
    for a, b in v[1]:
      yield from sub_vals(a)
      yield from sub_vals(b)


def has_coll(a):
  return any(x[0] == "coll" for x in sub_anns(a))


def multi_display(v):
  """some display has two or more elements (its parameter variable holds several bindings)"""
  return any(x[0] in ("list", "set", "fset", "dict") and len(x[1]) >= 2 for x in sub_vals(v))


def is_flat_ann(a):
  return a[0] in _PY_ANN or a[0] in ("cls", "typec", "typeu")


def tojson(x):
  if isinstance(x, (tuple, list)):
    return [tojson(y) for y in x]
  return x


def pair_repr(bases, a, v, site=None):
  d = {"annotation": ann_py(a), "value": val_py(v), "hierarchy": hierarchy_src(bases).strip().split("\n")}
  if site:
    d["site"] = site
  return d


def exhaustive_atoms():
  """every atomic annotation against every atomic value"""
  vals = ([("int", 0), ("int", 7), ("bool", True), ("bool", False), ("float", 0), ("complex", 0), ("str", ""),
           ("str", "ab"), ("bytes", ""), ("bytes", "ab"), ("none",), ("func", 0), ("func", 2)]
          + [("inst", i) for i in range(NCLS)] + [("clsobj", i) for i in range(NCLS)]
          + [("bclsobj", b) for b in BUILTIN_CLSOBJ])
  return [(a, v) for a in atom_anns() for v in vals]


def shape_family():
  """deterministic family: container *shape* decides — every tuple length 0..3 against every fixed-length /
  homogeneous / Sequence annotation (also nested in list, tuple and Optional), and every empty or one-element
  container against every generic annotation.  No Collection (compared one-sidedly elsewhere)."""
  I, S = ("int",), ("str",)
  i1, i2, i3, sa = ("int", 1), ("int", 2), ("int", 3), ("str", "a")
  tvals = [("tuple", []), ("tuple", [i1]), ("tuple", [sa]), ("tuple", [i1, sa]), ("tuple", [sa, i1]),
           ("tuple", [i1, i2, i3])]
  tanns = [("tup", []), ("tup", [I]), ("tup", [S]), ("tup", [I, S]), ("tup", [I, I, I]), ("tuphom", I),
           ("tuphom", S), ("seq", I), ("opt", ("tup", [I, S])), ("union", [("tup", [I]), ("tup", [I, S])]),
           ("object",), ("list", I)]
  out = [(a, v) for a in tanns for v in tvals]
  # nested: the tuple is an element
  for v in tvals:
    out.append((("list", ("tup", [I, S])), ("list", [v])))
    out.append((("tup", [("tup", [I]), I]), ("tuple", [v, i2])))
    out.append((("dict", S, ("tup", [I, S])), ("dict", [[sa, v]])))
    out.append((("tuphom", ("tup", [I])), ("tuple", [v, v])))
  cvals = [("list", []), ("list", [i1]), ("list", [sa]), ("set", []), ("set", [i1]), ("fset", []), ("fset", [sa]),
           ("dict", []), ("dict", [[sa, i1]]), ("dict", [[i1, sa]]), ("tuple", []), ("none",)]
  canns = [("list", I), ("list", S), ("set", I), ("fset", S), ("dict", S, I), ("map", S, I), ("seq", I), ("iter", S),
           ("tuphom", I), ("opt", ("list", I)), ("object",), ("any",)]
  out += [(a, v) for a in canns for v in cvals]
  seen, res = set(), []
  for a, v in out:
    k = json.dumps([tojson(a), tojson(v)])
    if k not in seen:
      seen.add(k)
      res.append((a, v))
  return res


def large_family():
  """deterministic family: constant displays around pytype's size thresholds (constant folding switches representation
  at 64 elements, MAX_VAR_SIZE): sizes just below / at / above, the one non-conforming element at the first, 63rd, 64th,
  65th, middle or last position or nowhere, as list / tuple / set / dict values against the element annotation"""
  I, S = ("int",), ("str",)
  out = []
  for n in (62, 63, 64, 65, 66, 70, 130):
    for pos in (None, 0, 62, 63, 64, 65, n // 2, n - 1):
      if pos is not None and pos >= n:
        continue
      elems = [("str", "ab") if i == pos else ("int", i) for i in range(n)]
      out.append((("list", I), ("list", elems)))
      out.append((("seq", I), ("list", elems)))
      out.append((("tuphom", I), ("tuple", elems)))
      if n in (63, 64, 65, 70):
        out.append((("list", ("union", [I, S])), ("list", elems)))
        out.append((("set", I), ("set", elems)))
        out.append((("dict", I, I), ("dict", [[("int", i), e] for i, e in enumerate(elems)])))
        out.append((("iter", S), ("list", elems)))
  return out


def batches_of(pairs, rng, size=20):
  """split into modules of `size` pairs, each with its own generated hierarchy"""
  out = []
  for i in range(0, len(pairs), size):
    bases, mros = gen_hierarchy(rng)
    out.append((bases, mros, pairs[i:i + size]))
  return out


# ----------------------------------------------------------------------------------------------
# K — correspondence: real pytype at the three sites vs the Lean model
# ----------------------------------------------------------------------------------------------
TIMED_OUT = []


def correspond(res, rng, tier):
  t0 = time.time()
  del TIMED_OUT[:]
  drv = common.ensure_driver("drv_c02")
  nrand = 1000 if tier == "quick" else 6200
  pairs = exhaustive_atoms() + shape_family() + large_family()
  n_ex = len(pairs)
  seen = {json.dumps([tojson(a), tojson(v)]) for a, v in pairs}
  groups = [("exact", b) for b in batches_of(pairs, rng)]
  # random pairs are generated per module (values are built from the module's own hierarchy); annotations
  # containing Collection never share a module with the others (the protocol matcher has side effects)
  plain, coll, n_gen = [], [], 0
  def flush(buf, mode, hier, force=False):
    while len(buf) >= 20 or (force and buf):
      groups.append((mode, (hier[0], hier[1], buf[:20])))
      del buf[:20]
  hier = gen_hierarchy(rng)
  hier_c = gen_hierarchy(rng)
  tries = 0
  while n_gen < nrand and tries < 20 * nrand:
    tries += 1
    use_c = rng.random() < 0.4
    a, v = gen_pair(rng, (hier_c if use_c else hier)[1])
    if has_coll(a) != use_c:
      continue
    key = json.dumps([tojson(a), tojson(v)])
    if key in seen:
      continue
    seen.add(key)
    n_gen += 1
    (coll if use_c else plain).append((a, v))
    if len(plain) >= 20:
      flush(plain, "exact", hier)
      hier = gen_hierarchy(rng)
    if len(coll) >= 20:
      flush(coll, "one-sided", hier_c)
      hier_c = gen_hierarchy(rng)
  flush(plain, "exact", hier, True)
  flush(coll, "one-sided", hier_c, True)
  pairs = [p for _, (_, _, ps) in groups for p in ps]
  coll = [p for p in pairs if has_coll(p[0])]
  pred = model_predict(drv, [(mros, ps) for _, (_, mros, ps) in groups])
  real = run_real([(bases, ps, SITES) for _, (bases, _, ps) in groups])
  disagreements = []
  stats = {"checks": 0, "checks_exact": 0, "checks_one_sided": 0, "real_errors": 0, "model_errors": 0,
           "pairs_in_guard": 0, "pairs_member": 0, "pairs_multi_view": 0, "pairs_not_pyDistinct": 0,
           "member_oracle_compared": 0, "ann_depth": {}, "val_depth": {}, "by_site_error": {s: 0 for s in SITES}}
  nontrivial = set()
  samples = []
  crash_samples = []
  stats["collection_checks_crashed"] = 0
  for (mode, (bases, mros, ps)), pr, ob in zip(groups, pred, real):
    if "timeout" in ob:
      TIMED_OUT.append(len(disagreements))
      disagreements.append({"kind": "real-code-timeout", "bases": bases, "mode": mode,
                            "pairs": [[tojson(a), tojson(v)] for a, v in ps],
                            "note": "pytype did not finish this module (normal: seconds)"})
      continue
    if "crash" in ob and mode == "one-sided":
      # known finding c02-collection-report-crash: pytype can crash while *printing* the error of a failing view
      # after a structural Collection match.  Re-run every check of the module on its own; checks that still
      # crash are counted (not compared), the others are compared as usual.
      verd = real_verdicts(bases, ps, isolate=True)
      ob = {"obs": {}, "stray": []}
      for (i, s), e in verd.items():
        if s not in SITES:
          continue
        if isinstance(e, str):
          stats["collection_checks_crashed"] += 1
          ob["obs"][(i, s)] = [ERR[s]] if pr[i][s] else []      # not compared: take the model's answer
          if len(crash_samples) < 2:
            crash_samples.append({"pair": pair_repr(bases, ps[i][0], ps[i][1], s), "exception": e})
        elif e:
          ob["obs"][(i, s)] = [ERR[s]]
    if "crash" in ob:
      disagreements.append({"kind": "real-code-crash", "exception": ob["crash"], "source": ob["src"][:6000],
                            "pairs": [[tojson(a), tojson(v)] for a, v in ps], "bases": bases})
      continue
    if ob["stray"]:
      disagreements.append({"kind": "error-on-unexpected-line", "errors": ob["stray"],
                            "source": build_module(bases, ps)[0][:6000],
                            "pairs": [[tojson(a), tojson(v)] for a, v in ps], "bases": bases})
    env = runtime_env(bases)
    for i, (a, v) in enumerate(ps):
      m = pr[i]
      stats["pairs_in_guard"] += m["guard"] and m["pyDistinct"] and m["valInF2"]
      stats["pairs_member"] += m["member"]
      stats["pairs_multi_view"] += not m["singleView"]
      stats["pairs_not_pyDistinct"] += not m["pyDistinct"]
      stats["ann_depth"][ann_depth(a)] = stats["ann_depth"].get(ann_depth(a), 0) + 1
      stats["val_depth"][val_depth(v)] = stats["val_depth"].get(val_depth(v), 0) + 1
      if not (m["inF2"] and m["valInF2"]):
        disagreements.append({"kind": "generator-left-F2", "pair": pair_repr(bases, a, v)})
      # the specification itself against the independent Python oracle on the run-time value
      if m["pyDistinct"]:
        stats["member_oracle_compared"] += 1
        try:
          om = oracle(bases, a, v, env)
        except Exception as e:
          om = "exception %r" % (e,)
        if om != m["member"]:
          disagreements.append({"kind": "lean-member-vs-python-oracle", "pair": pair_repr(bases, a, v),
                                "lean_member": m["member"], "python_oracle": om, "bases": bases,
                                "ann": tojson(a), "val": tojson(v)})
      outcomes = []
      for s in SITES:
        names = ob["obs"].get((i, s), [])
        expected = [ERR[s]] if m[s] else []
        stats["checks"] += 1
        stats["real_errors"] += bool(names)
        stats["model_errors"] += bool(expected)
        stats["by_site_error"][s] += bool(names)
        outcomes.append(bool(names))
        if mode == "exact":
          stats["checks_exact"] += 1
          bad = names != expected
        else:
          stats["checks_one_sided"] += 1
          bad = bool(names) and (names != [ERR[s]] or not expected)   # real errors ⊆ model errors
        if bad:
          disagreements.append({"kind": "site-verdict", "mode": mode, "site": s, "pair": pair_repr(bases, a, v),
                                "real": names, "model": expected, "bases": bases, "ann": tojson(a), "val": tojson(v)})
      # non-trivial: decided below the top constructor (both sides are compound) or the three sites differ
      if (ann_depth(a) >= 1 and val_depth(v) >= 1) or len(set(outcomes)) > 1:
        nontrivial.add(json.dumps([tojson(a), tojson(v)]))
      if len(samples) < 4 and ann_depth(a) == 2 and val_depth(v) >= 1:
        samples.append({"annotation": ann_py(a), "value": val_py(v), "real_errors_arg_ret_asg": outcomes,
                        "model_errors_arg_ret_asg": [m[s] for s in SITES], "member": m["member"], "guard": m["guard"]})
  # ---- variant sites: keyword / keyword-only / positional-only / method / *args arguments, method returns and
  # re-assignment of a declared variable must behave like the base site the model predicts
  vgroups = [(g, pr) for g, pr in zip(groups, pred) if g[0] == "exact"]
  rng.shuffle(vgroups)
  vgroups = vgroups[:14 if tier == "quick" else 80]
  vreal = run_real([(bases, ps, VARIANTS) for (_, (bases, _, ps)), _ in vgroups])
  vstats = {"checks": 0, "real_errors": 0, "by_variant_error": {s: 0 for s in VARIANTS}, "modules": len(vgroups)}
  for ((_, (bases, mros, ps)), pr), ob in zip(vgroups, vreal):
    if "timeout" in ob:
      continue
    if "crash" in ob:
      disagreements.append({"kind": "real-code-crash", "exception": ob["crash"], "source": ob["src"][:6000],
                            "pairs": [[tojson(a), tojson(v)] for a, v in ps], "bases": bases, "sites": "variants"})
      continue
    if ob["stray"]:
      disagreements.append({"kind": "error-on-unexpected-line", "errors": ob["stray"],
                            "source": build_module(bases, ps, VARIANTS)[0][:6000],
                            "pairs": [[tojson(a), tojson(v)] for a, v in ps], "bases": bases})
    for i, (a, v) in enumerate(ps):
      for s in VARIANTS:
        names = ob["obs"].get((i, s), [])
        expected = [ERR[base_site(s)]] if pr[i][base_site(s)] else []
        vstats["checks"] += 1
        vstats["real_errors"] += bool(names)
        vstats["by_variant_error"][s] += bool(names)
        if names != expected:
          disagreements.append({"kind": "site-verdict", "mode": "exact", "site": s, "pair": pair_repr(bases, a, v),
                                "real": names, "model": expected, "bases": bases, "ann": tojson(a), "val": tojson(v)})
  stats["variant_sites"] = vstats
  stats["checks"] += vstats["checks"]
  res.cov["evaluations"] = stats["checks"]
  res.cov["distinct_nontrivial"] = len(nontrivial)
  res.cov["exhaustive"] = False
  res.cov["programs"] = len(groups) + len(vgroups)
  res.cov["rule"] = (
      "pairs (annotation of grammar F2, ground value expression) over generated 5-class hierarchies (single and "
      "multiple inheritance), each checked at the three sites (argument / return / annotated assignment), %d checks "
      "per generated module, one check per line; observed = set of (error class, line) from real io.generate_pyi, "
      "expected = Lean driver.  %d pairs are the exhaustive product atomic annotation x atomic value plus the deterministic container-shape "
      "family (every tuple length against every fixed/homogeneous/Sequence annotation, empty and one-element containers "
      "against every generic), the rest are "
      "seeded random with annotation depth <= 2 and value depth <= 2 (annotation generated from the value's shape "
      "with perturbations, so that nested positions decide).  Annotations containing Collection are compared "
      "one-sidedly (real errors must be predicted; see registry note).  evaluations = checks (pair x site); "
      "distinct_nontrivial = distinct pairs where both annotation and value are compound, or where the three "
      "sites disagree among themselves.  In addition Lean `member` is compared with the independent Python "
      "membership oracle evaluated on the run-time value for every pair whose displays have no equal keys.  "
      "Variant sites: for a seeded subset of the modules every pair is also checked as keyword argument, keyword-only "
      "parameter, positional-only parameter, method parameter, *args element, method return and re-assignment of a "
      "declared variable; each must give the verdict the model predicts for its base site (arg/ret/asg)."
      % (3 * 20, n_ex))
  res.cov["distribution"] = dict(stats, pairs=len(pairs), pairs_exhaustive_atomic=n_ex, pairs_random=len(pairs) - n_ex,
                                 pairs_with_Collection=len(coll), modules=len(groups),
                                 k_wall_s=round(time.time() - t0, 1))
  res.add_samples(samples)
  if crash_samples:
    res.cov["collection_crash_samples"] = crash_samples
  disagreements = disagreements + callable_family(res, drv) + callable_value_family(res, drv)
  return disagreements


# ----------------------------------------------------------------------------------------------
# K (callable family) — a function value against Callable[[A1..An], R]: the arity clause
# ----------------------------------------------------------------------------------------------
CALLABLE_KNOWN = {"c02-callable-kwonly-counted", "c02-callable-kwargs-unbounded"}


def callable_sigs():
  """every signature shape with <=2 required and <=1 optional positional parameters, <=1 required and <=1 optional
  keyword-only parameters, with/without *args and **kwargs"""
  return [(rp, op, va, rk, ok, kw) for rp in range(3) for op in range(2) for va in range(2)
          for rk in range(2) for ok in range(2) for kw in range(2)]


def callable_def(name, sig):
  rp, op, va, rk, ok, kw = sig
  ps = ["a%d" % i for i in range(rp)] + ["b%d=0" % i for i in range(op)]
  if va:
    ps.append("*va")
  elif rk or ok:
    ps.append("*")
  ps += ["k%d" % i for i in range(rk)] + ["j%d=0" % i for i in range(ok)]
  if kw:
    ps.append("**kw")
  return "def %s(%s): return 0" % (name, ", ".join(ps))


def callable_module(cases):
  """cases: [(sig, n)] -> (source, {line: (case index, site)}); sites: argument and annotated assignment"""
  L = ["from typing import Any, Callable"]
  where = {}
  for n in sorted({n for _, n in cases}):
    L.append("def g%d(c: Callable[[%s], Any]): pass" % (n, ", ".join(["int"] * n)))
  sigs = sorted({s for s, _ in cases})
  for s_ in sigs:
    L.append(callable_def("f_%s" % "".join(map(str, s_)), s_))
  for i, (s_, n) in enumerate(cases):
    f = "f_%s" % "".join(map(str, s_))
    L.append("g%d(%s)" % (n, f))
    where[len(L)] = (i, "arg")
    L.append("v%d: Callable[[%s], Any] = %s" % (i, ", ".join(["int"] * n), f))
    where[len(L)] = (i, "asg")
  return "\n".join(L) + "\n", where


def callable_cpython(sig, n):
  """the independent oracle: can CPython call the function with n positional arguments?"""
  import inspect
  ns = {}
  exec(callable_def("f", sig), ns)  # pylint: disable=exec-used
  try:
    inspect.signature(ns["f"]).bind(*([0] * n))
  except TypeError:
    return False
  try:
    ns["f"](*([0] * n))
  except TypeError:
    return False
  return True


def callable_real(cases):
  src, where = callable_module(cases)
  errs = real_errors(src)
  flagged = {}
  stray = []
  for name, line in errs:
    if line in where and name in ("wrong-arg-types", "annotation-type-mismatch"):
      flagged[where[line]] = name
    else:
      stray.append((name, line))
  return src, flagged, stray


def callable_family(res, drv):
  """K4: 96 signature shapes x n in 0..3 x two sites.  (a) Lean arityMatch == the real matcher's verdict at both sites,
  (b) Lean cpyAccepts == CPython really binding n positional arguments, (c) Lean Guard recomputed here.  The property
  itself (error <=> not callable with n arguments) follows inside the guard by callable_arity_exact_partial; outside it
  the cases where the verdicts differ are the two known findings (all of them are counted; W replays one witness each)."""
  cases = [(s_, n) for s_ in callable_sigs() for n in range(4)]
  out = drv.batch(["carity %d %d %d %d %d %d %d" % (s_ + (n,)) for s_, n in cases])
  src, flagged, stray = callable_real(cases)
  dis = []
  stats = {"cases": len(cases), "sites": 2 * len(cases), "model_reject": 0, "inside_guard": 0,
           "outside_guard_inexact": 0, "cpython_accepts": 0}
  if stray:
    dis.append({"stage": "K4-callable", "what": "unexpected errors in the callable family module", "errors": stray[:5]})
  for i, ((s_, n), line) in enumerate(zip(cases, out)):
    try:
      m, c, g = [x == "1" for x in line.split()]
    except ValueError:
      dis.append({"stage": "K4-callable", "what": "driver answered %r" % line})
      break
    cp = callable_cpython(s_, n)
    stats["model_reject"] += (not m)
    stats["inside_guard"] += g
    stats["cpython_accepts"] += cp
    g_py = s_[3] == 0 and s_[4] == 0 and (not s_[5] or bool(s_[1 + 1]))
    text = "%s against Callable[[%s], Any]" % (callable_def("f", s_), ", ".join(["int"] * n))
    if c != cp or g != g_py:
      dis.append({"stage": "K4-callable", "what": "Lean cpyAccepts/Guard != CPython / recomputed guard", "case": text,
                  "lean": [c, g], "python": [cp, g_py]})
    for site in ("arg", "asg"):
      real_err = (i, site) in flagged
      if real_err != (not m):
        dis.append({"stage": "K4-callable", "what": "model!=pytype", "case": text, "site": site, "sig": list(s_), "n": n,
                    "lean_arityMatch": m, "real_error": real_err, "cpython_accepts": cp})
    if m != cp:
      stats["outside_guard_inexact"] += 1
      if g:
        dis.append({"stage": "K4-callable", "what": "inexact inside the guard (contradicts the theorem's model)",
                    "case": text})
  res.cov["callable_family"] = stats
  return dis


CARG_T = ["int", "str", "float", "object", "bool"]
CARG_C = {"int": "i", "str": "s", "float": "f", "object": "o", "bool": "b"}


def callable_value_cases():
  """every pair (declared argument list, expected argument list) over five scalar classes with one or two arguments
  on both sides, plus arity mismatches (0/1, 1/2, 2/1, 1/0)"""
  import itertools
  cases = []
  for n in (1, 2):
    for dec in itertools.product(CARG_T, repeat=n):
      for exp in itertools.product(CARG_T, repeat=n):
        cases.append((dec, exp))
  cases += [(("int",), ("int", "int")), (("int", "str"), ("int",)), ((), ("int",)), (("int",), ()),
            (("object", "object"), ("str",)), (("float",), ("int", "bool"))]
  return cases


def callable_value_module(cases):
  nm = lambda t: "_".join(t) or "z"
  L = ["from typing import Any, Callable"]
  for e in sorted({e for _, e in cases}):
    L.append("def g_%s(c: Callable[[%s], None]): pass" % (nm(e), ", ".join(e)))
  decs = sorted({d for d, _ in cases})
  L.append("def run(" + ", ".join("v_%s: Callable[[%s], None]" % (nm(d), ", ".join(d)) for d in decs) + "):")
  where = {}
  for i, (d, e) in enumerate(cases):
    L.append("  g_%s(v_%s)" % (nm(e), nm(d)))
    where[len(L)] = i
  return "\n".join(L) + "\n", where


def callable_value_spec(d, e):
  """PEP 484, independent of the model: same number of arguments and each expected argument type acceptable where the
  declared one is expected (bool <= int <= float by promotion, everything <= object)"""
  def sub(a, b):
    return a == b or b == "object" or (a, b) in (("bool", "int"), ("bool", "float"), ("int", "float"))
  return len(d) == len(e) and all(sub(x, y) for x, y in zip(e, d))


def callable_value_real(cases):
  src, where = callable_value_module(cases)
  errs = real_errors(src)
  flagged = {where[line] for name, line in errs if name == "wrong-arg-types" and line in where}
  stray = [(n, l) for n, l in errs if not (n == "wrong-arg-types" and l in where)]
  return src, flagged, stray


def callable_value_family(res, drv):
  """K5: a parameter declared Callable[[D..], None] passed where Callable[[E..], None] is expected: Lean matchArgs ==
  the real matcher's verdict == the PEP 484 rule, for every pair of argument lists of length <= 2 over five classes."""
  cases = callable_value_cases()
  enc = lambda t: "".join(CARG_C[x] for x in t) or "-"
  out = drv.batch(["cargs %s %s" % (enc(d), enc(e)) for d, e in cases])
  src, flagged, stray = callable_value_real(cases)
  dis = []
  if stray:
    dis.append({"stage": "K5-callable-value", "what": "unexpected errors in the family module", "errors": stray[:5]})
  n_rej = 0
  for i, ((d, e), o) in enumerate(zip(cases, out)):
    m = o.strip() == "1"
    n_rej += (not m)
    text = "a Callable[[%s], None] value passed as Callable[[%s], None]" % (", ".join(d), ", ".join(e))
    if m != callable_value_spec(d, e):
      dis.append({"stage": "K5-callable-value", "what": "Lean matchArgs != PEP 484 rule", "case": text})
    if (i in flagged) != (not m):
      dis.append({"stage": "K5-callable-value", "what": "model!=pytype", "case": text, "lean_matchArgs": m,
                  "real_error": i in flagged})
  res.cov["callable_value_family"] = {"cases": len(cases), "model_reject": n_rej}
  return dis


def callable_value_oracle():
  cases = callable_value_cases()
  src, flagged, _ = callable_value_real(cases)
  return [(d, e, i in flagged) for i, (d, e) in enumerate(cases) if (i in flagged) == callable_value_spec(d, e)]


def callable_oracle(cases):
  """the property's own oracle on the real code: error at the site <=> CPython cannot call it with n arguments;
  -> failing (sig, n, site, real_error, cpython) outside the two listed findings' region"""
  _, flagged, _ = callable_real(cases)
  bad = []
  for i, (s_, n) in enumerate(cases):
    cp = callable_cpython(s_, n)
    for site in ("arg", "asg"):
      err = (i, site) in flagged
      if err == cp:
        # listed: accepted although CPython refuses, because keyword-only parameters are counted / **kwargs lifts the bound
        listed = (not err) and (not cp) and ((s_[3] + s_[4] > 0) or (s_[5] and not s_[2]))
        if not listed:
          bad.append((s_, n, site, err, cp))
  return bad


# ----------------------------------------------------------------------------------------------
# the property's own oracle on the real code:  error at the site  <=>  value not a member
# ----------------------------------------------------------------------------------------------
def real_verdicts(bases, pairs, isolate=False):
  """{(i, site): bool error}, or raises on a crash of the real code.  isolate=True: every (pair, site) is analysed
  in a module of its own (the protocol matcher's side effects make a Collection verdict depend on earlier checks)."""
  if isolate:
    jobs = [(bases, [p], (s,)) for p in pairs for s in ALL_SITES]
    outs = run_real(jobs)
    res = {}
    for j, o in enumerate(outs):
      i, s = divmod(j, len(ALL_SITES))
      if "timeout" in o:
        res[(i, ALL_SITES[s])] = "timeout: the real code did not finish"
      else:
        res[(i, ALL_SITES[s])] = "crash: " + o["crash"] if "crash" in o else bool(o["obs"].get((0, ALL_SITES[s])))
    return res
  out = run_real([(bases, pairs, ALL_SITES)])[0]
  if "timeout" in out:
    raise RuntimeError("timeout: the real code did not finish")
  if "crash" in out:
    raise RuntimeError(out["crash"])
  return {(i, s): bool(out["obs"].get((i, s))) for i in range(len(pairs)) for s in ALL_SITES}


def member_documented(x, a, env):
  """PEP-484 membership amended by the two *documented/configured* upstream rules that are local to one position:
  R1 a str is not accepted as Sequence/Iterable/Collection[str]; R2 None is accepted for bool (--none-is-not-bool
  is off by default).  Used only to recognise the characterised region of those two known findings."""
  k = a[0]
  if k == "bool":
    return isinstance(x, bool) or x is None
  if k in ("seq", "iter", "coll") and isinstance(x, str) and a[1] == ("str",) or (
      k in ("seq", "iter", "coll") and isinstance(x, str) and list(a[1]) == ["str"]):
    return False
  if k in ("opt",):
    return x is None or member_documented(x, a[1], env)
  if k == "union":
    return any(member_documented(x, o, env) for o in a[1])
  if k in ("list", "set", "fset"):
    t = {"list": list, "set": set, "fset": frozenset}[k]
    return isinstance(x, t) and all(member_documented(e, a[1], env) for e in x)
  if k == "tuphom":
    return isinstance(x, tuple) and all(member_documented(e, a[1], env) for e in x)
  if k == "tup":
    return isinstance(x, tuple) and len(x) == len(a[1]) and all(member_documented(e, o, env) for e, o in zip(x, a[1]))
  if k in ("seq", "iter", "coll"):
    abc = {"seq": collections.abc.Sequence, "iter": collections.abc.Iterable, "coll": collections.abc.Collection}[k]
    if not isinstance(x, abc):
      return False
    elems = list(x)
    if isinstance(x, str):
      elems.append("x")
    elif isinstance(x, bytes):
      elems.append(0)
    return all(member_documented(e, a[1], env) for e in elems)
  if k in ("dict", "map"):
    t = dict if k == "dict" else collections.abc.Mapping
    return isinstance(x, t) and all(member_documented(kk, a[1], env) and member_documented(vv, a[2], env)
                                    for kk, vv in x.items())
  return member(x, a, env)


def known_region(a, v, site, error, mem, env):
  """id of the known finding whose characterised region explains `error == mem` (a failure of the property), or None.
  Written on the Python side only (independent of the Lean model)."""
  site = base_site(site)
  x = eval(val_py(v), env)
  if error and mem:            # false error
    if not member_documented(x, a, env):
      return "c02-noniterable-str"
    if not py_distinct(v):
      return "c02-display-dedup"
    return None
  # missed error
  if site == "asg" and v[0] == "none":
    return "c02-assign-none"
  if member_documented(x, a, env):
    return "c02-none-matches-bool"
  if has_coll(a):
    return "c02-collection-structural"
  # (the region c02-set-display-hidden-elements is gone: repaired by 8039531; its witness is replayed as "fixed")
  if site == "arg" and multi_display(v):
    return "c02-arg-any-view"
  if multi_display(v) and any(u[0] == "union" and sum(1 for o in u[1] if not is_flat_ann(o)) >= 2
                              for u in sub_anns(a)):
    return "c02-union-per-view"
  return None


def failing_sites(bases, a, v, env=None, isolate=False):
  """sites where the property fails for this pair on the real code: [(site, error, member, known id or None)]"""
  env = env or runtime_env(bases)
  verd = real_verdicts(bases, [(a, v)], isolate)
  mem = oracle(bases, a, v, env)
  out = []
  for s in ALL_SITES:
    err = verd[(0, s)]
    if isinstance(err, str):      # the real code crashed on this check (isolate mode only)
      out.append((s, err, mem, "c02-collection-report-crash" if has_coll(a) else None))
    elif err == mem:
      out.append((s, err, mem, known_region(a, v, s, err, mem, env)))
  return out


# ----------------------------------------------------------------------------------------------
# W — witnesses of the known findings
# ----------------------------------------------------------------------------------------------
def witnesses(res):
  known, fixed = common.known_findings("C02")
  replayed = []
  for e in [e for e in known if e["id"] in CALLABLE_KNOWN]:
    w = e["witness"]
    s_, n = tuple(w["sig"]), w["n"]
    _, flagged, _ = callable_real([(s_, n)])
    cp = callable_cpython(s_, n)
    still = sorted(site for site in ("arg", "asg") if ((0, site) in flagged) == cp)
    replayed.append({"id": e["id"], "sites_failing": still, "case": callable_def("f", s_), "n": n})
    if still:
      res.known_lines.append("%s [%s against Callable[[%s], Any] at site(s) %s]" % (
          e["what"], callable_def("f", s_), ", ".join(["int"] * n), ",".join(still)))
  known = [e for e in known if e["id"] not in CALLABLE_KNOWN]
  for e in known:
    w = e["witness"]
    bases = w["bases"]
    a, v = w["ann"], w["val"]
    try:
      fs = failing_sites(bases, a, v, isolate=True)
    except Exception as exc:
      res.violation("witness-crash", {"property": "C02", "kind": "known-finding witness crashes the real code",
                                      "id": e["id"], "exception": repr(exc)})
      continue
    if w.get("kind") == "crash":
      still = sorted(s for s, e, _, _ in fs if s in w["sites"] and isinstance(e, str))
    else:
      still = sorted(s for s, e, _, _ in fs if s in w["sites"] and not isinstance(e, str))
    replayed.append({"id": e["id"], "sites_failing": still, "annotation": ann_py(a), "value": val_py(v)})
    if still:
      res.known_lines.append("%s [%s = %s at site(s) %s]" % (e["what"], ann_py(a), val_py(v), ",".join(still)))
  for e in fixed:   # none at the time of writing; a fixed witness must pass
    w = e["witness"]
    fs = failing_sites(w["bases"], w["ann"], w["val"], isolate=True)
    if any(s in w["sites"] for s, _, _, _ in fs):
      res.violation("fixed-regressed", {"property": "C02", "kind": "fixed witness fails again", "id": e["id"],
                                        "failing": [list(f) for f in fs]})
  res.cov["witnesses_replayed"] = replayed


# ----------------------------------------------------------------------------------------------
# S — failing-input search (only when P or K broke)
# ----------------------------------------------------------------------------------------------
def shrink_candidates(a, v):
  """structurally smaller pairs"""
  k = v[0]
  if k in ("list", "tuple", "set", "fset"):
    for i, x in enumerate(v[1]):
      yield a, x
      yield a, (k, list(v[1][:i]) + list(v[1][i + 1:]))
  elif k == "dict":
    for i, (x, y) in enumerate(v[1]):
      yield a, x
      yield a, y
      yield a, (k, list(v[1][:i]) + list(v[1][i + 1:]))
  ka = a[0]
  if ka in ("union", "tup"):
    for i, o in enumerate(a[1]):
      yield o, v
      if ka == "tup" or len(a[1]) > 2:
        yield (ka, list(a[1][:i]) + list(a[1][i + 1:])), v
  elif ka in GEN1 or ka == "opt":
    yield a[1], v
  elif ka in GEN2:
    yield a[1], v
    yield a[2], v
  # shrink both one level (element against parameter)
  if k in ("list", "tuple", "set", "fset") and (ka in GEN1):
    for x in v[1]:
      yield a[1], x


def shrink(bases, a, v, site, deadline):
  def fails(a2, v2):
    try:
      return any(s == site and kid is None for s, _, _, kid in failing_sites(bases, a2, v2))
    except Exception:
      return False
  progress = True
  while progress and time.time() < deadline:
    progress = False
    for a2, v2 in shrink_candidates(a, v):
      if time.time() >= deadline:
        break
      if fails(a2, v2):
        a, v, progress = a2, v2, True
        break
  return a, v


def search(res, rng, disagreements, pfail):
  budget = 120 if common.tier() == "quick" else 400
  if any(d.get("stage") == "K5-callable-value" for d in disagreements) or any("callable_args" in str(f) for f in pfail):
    bad = callable_value_oracle()
    if bad:
      bad.sort(key=lambda b: (len(b[0]) + len(b[1]), b[0], b[1]))
      d, e, err = bad[0]
      src, _ = callable_value_module([(d, e)])
      return [{"kind": "callable-value", "program": src, "pytype_reports_error": err,
               "pep484_member": callable_value_spec(d, e),
               "text": "a value declared Callable[[%s], None] passed where Callable[[%s], None] is expected: pytype %s, "
                       "PEP 484 (contravariant arguments) says it %s" % (
                           ", ".join(d), ", ".join(e), "reports wrong-arg-types" if err else "accepts it",
                           "conforms" if callable_value_spec(d, e) else "does not conform"),
               "others": len(bad) - 1}]
  if any(d.get("stage") == "K4-callable" for d in disagreements) or any("callable_arity" in str(f) for f in pfail):
    bad = callable_oracle([(s_, n) for s_ in callable_sigs() for n in range(4)])
    if bad:
      bad.sort(key=lambda b: (sum(b[0]), b[1]))
      s_, n, site, err, cp = bad[0]
      src, _ = callable_module([(s_, n)])
      return [{"kind": "callable-arity", "program": src, "site": site, "pytype_reports_error": err,
               "cpython_can_call_with_n_positionals": cp, "n": n, "sig": list(s_),
               "text": "%s against Callable[[%s], Any] at site %s: pytype %s, CPython %s" % (
                   callable_def("f", s_), ", ".join(["int"] * n), site,
                   "reports an error" if err else "accepts", "can call it" if cp else "raises TypeError"),
               "others": len(bad) - 1}]
  cands = []
  for d in disagreements:
    if "ann" in d and "val" in d:
      cands.append((d["bases"], d["ann"], d["val"]))
    for p in d.get("pairs", [])[:20]:
      cands.append((d["bases"], p[0], p[1]))
  # neighbourhood: every atomic pair, then fresh seeded pairs
  bases0, mros0 = gen_hierarchy(rng)
  cands += [(bases0, a, v) for a, v in exhaustive_atoms()]
  for _ in range(600 if common.tier() == "quick" else 4000):
    b, m = gen_hierarchy(rng) if rng.random() < 0.1 else (bases0, mros0)
    a, v = gen_pair(rng, m)
    cands.append((b, a, v))
  # evaluate the oracle on the real code, module-wise
  found, tried = [], 0
  by_bases = {}
  for b, a, v in cands:
    by_bases.setdefault(json.dumps([b, has_coll(a)]), []).append((a, v))
  jobs = []
  for bj, ps in by_bases.items():
    b = json.loads(bj)[0]
    for i in range(0, len(ps), 20):
      jobs.append((b, ps[i:i + 20], ALL_SITES))
  outs = run_real(jobs)
  for (b, ps, _), o in zip(jobs, outs):
    if "timeout" in o:
      continue
    if "crash" in o:
      # find the crashing check(s); a crash on a Collection annotation is the known finding c02-collection-report-crash
      verd = real_verdicts(b, ps, isolate=True)
      o = {"obs": {}}
      for (i, s), e in verd.items():
        if isinstance(e, str):
          if not has_coll(ps[i][0]) and e.startswith("crash"):
            found.append({"kind": "real-code-crash", "exception": e, "pair": pair_repr(b, ps[i][0], ps[i][1], s),
                          "program": build_module(b, [ps[i]], (s,))[0]})
          o["obs"][(i, s)] = None
        elif e:
          o["obs"][(i, s)] = [ERR[base_site(s)]]
    env = runtime_env(b)
    for i, (a, v) in enumerate(ps):
      tried += 1
      try:
        mem = oracle(b, a, v, env)
      except Exception:
        continue
      for s in ALL_SITES:
        if (i, s) in o["obs"] and o["obs"][(i, s)] is None:
          continue
        err = bool(o["obs"].get((i, s)))
        if err == mem and known_region(a, v, s, err, mem, env) is None:
          found.append({"bases": b, "ann": a, "val": v, "site": s, "error": err, "member": mem})
  res.cov["search_pairs_tried"] = tried
  if not found and not pfail and disagreements and all(d.get("kind") == "real-code-timeout" for d in disagreements):
    raise common.Timeout("pytype did not finish %d generated module(s); no verdict" % len(disagreements))
  # shrink the smallest few to a single (annotation, value, site); the budget covers shrinking only, and a failing
  # input is reported unshrunk when it is used up
  t1 = time.time()
  real_found = [f for f in found if "ann" in f]
  real_found.sort(key=lambda f: len(ann_py(f["ann"])) + len(val_py(f["val"])))
  out = [f for f in found if "ann" not in f][:1]
  seen = set()
  for f in real_found:
    if len(out) >= 3:
      break
    a, v = f["ann"], f["val"]
    if time.time() - t1 < budget:
      a, v = shrink(f["bases"], a, v, f["site"], t1 + budget)
    key = (ann_py(a), val_py(v), f["site"])
    if key in seen:
      continue
    seen.add(key)
    env = runtime_env(f["bases"])
    mem = oracle(f["bases"], a, v, env)
    src, _ = build_module(f["bases"], [(a, v)], (f["site"],))
    out.append({"annotation": ann_py(a), "value": val_py(v), "site": f["site"],
                "pytype_reports_error": f["error"], "value_is_member_of_annotation": mem,
                "what": ("pytype reports [%s] although the value inhabits the annotation" % ERR[base_site(f["site"])]) if f["error"]
                        else "pytype reports nothing although the value is outside the annotated type",
                "program": src, "ann": tojson(a), "val": tojson(v), "bases": f["bases"]})
  return out


TRUSTED = [
    "hand-written model of matcher.py / the three enforcement sites for a fully known value (Sem/Matcher.lean), tied by "
    "correspondence on sampled pairs; `member` (the specification) is tied to an independent Python isinstance/"
    "collections.abc oracle evaluated on the run-time value",
    "translate/compat.py (AST/introspection of pep484.py, config.py, optimize.py, matcher.py) for Generated/Compat.lean",
    "CPython as evaluator of the ground value expressions and of the generated class hierarchy's MROs",
]
ASSUMPTIONS = [
    "MRO of each generated class is taken from CPython (pytype's linearisation agrees: property C10)",
    "deep_variable_product's 1024-combination limit is not reached (values have depth <= 2 and <= 3 elements per display)",
    "default options (python_version 3.12): none_is_not_bool=False, strict_parameter_checks irrelevant to call matching",
    "annotations containing typing.Collection are compared one-sidedly: pytype's structural protocol matcher has "
    "side effects on the typegraph (it drops failing views afterwards) that the model does not describe",
]

REQUIRED[:] = [
    "match_exact_not_full", "match_exact_partial", "deviation_none_bool", "deviation_union_per_view",
    "deviation_collection", "guard_of_small", "site_uniform", "site_uniform_not_full", "site_uniform_not_full_asg",
    "site_le_ret", "singleView_of_small", "site_exact_partial",
    "callable_arity_no_false_error", "callable_arity_exact_partial", "callable_arity_exact_not_full",
    "callable_args_contravariant", "subS_refl", "subS_trans",
]


def prepare():
  """prepare step: regenerate Generated/Compat.lean from the tree under verification (rewritten only on change)"""
  import subprocess
  r = subprocess.run([common.PY, os.path.join(common.VERIF, "translate", "compat.py")], cwd=common.VERIF,
                     stdout=subprocess.PIPE, stderr=subprocess.STDOUT, text=True,
                     env=dict(os.environ, PYTYPE_REPO=common.REPO))
  if r.returncode != 0:
    print("translate/compat.py failed:\n" + r.stdout[-2000:], file=sys.stderr)
    sys.exit(2)


def main():
  common.ensure_ext()
  prepare()
  try:
    return common.run_check("C02", REQUIRED, correspond, witnesses, search, trusted=TRUSTED,
                            assumptions=ASSUMPTIONS, extra_targets=("drv_c02",))
  except common.Timeout as e:   # a timeout is never a VIOLATION
    print("TIMEOUT property=C02 %s" % e, file=sys.stderr)
    return 2


if __name__ == "__main__":
  sys.exit(main())
