"""C02 — annotations are enforced exactly (DESIGN.md §5 C02).

Fragment F2 (shared with lean/PytypeModel/Sem/Matcher.lean `InF2`):
  Ann := int|float|complex|str|bytes|bool|None|object|Any | K<i> | Optional a | Union as | list a | set a |
         frozenset a | dict k v | tuple[a, ...] | tuple[a1..an] | Sequence a | Iterable a | Collection a |
         Mapping k v | Callable | type[K<i>] | type[Any]
  values: ground expressions (scalar literals, None, list/tuple/set/dict displays, frozenset([...]), K<i>(),
          class objects, lambdas / module-level functions).

Internal representation (Python tuples) and the two renderings (Python source, Lean driver token string)
are defined here once; `render_*` is the only place that knows the concrete syntax.
"""
import collections.abc
import itertools
import json
import multiprocessing
import os
import random
import sys
import time

from harness import common

REQUIRED = []  # filled in below, after the theorem list

NCLS = 5
SITES = ("arg", "ret", "asg")
ERR = {"arg": "wrong-arg-types", "ret": "bad-return-type", "asg": "annotation-type-mismatch"}

# ----------------------------------------------------------------------------------------------
# annotations
# ----------------------------------------------------------------------------------------------
SCALAR_ANNS = ["int", "float", "complex", "str", "bytes", "bool", "none", "object", "any", "callable", "typeany"]
GEN1 = ["list", "set", "fset", "tuphom", "seq", "iter", "coll"]
GEN2 = ["dict", "map"]
_PY_ANN = {"int": "int", "float": "float", "complex": "complex", "str": "str", "bytes": "bytes", "bool": "bool",
           "none": "None", "object": "object", "any": "Any", "callable": "Callable", "typeany": "type[Any]"}
_PY_GEN = {"list": "list", "set": "set", "fset": "frozenset", "seq": "Sequence", "iter": "Iterable",
           "coll": "Collection", "dict": "dict", "map": "Mapping"}


def ann_py(a):
  k = a[0]
  if k in _PY_ANN:
    return _PY_ANN[k]
  if k == "cls":
    return "K%d" % a[1]
  if k == "typec":
    return "type[K%d]" % a[1]
  if k == "opt":
    return "Optional[%s]" % ann_py(a[1])
  if k == "union":
    return "Union[%s]" % ", ".join(ann_py(x) for x in a[1])
  if k == "tuphom":
    return "tuple[%s, ...]" % ann_py(a[1])
  if k == "tup":
    return "tuple[%s]" % (", ".join(ann_py(x) for x in a[1]) if a[1] else "()")
  if k in GEN1:
    return "%s[%s]" % (_PY_GEN[k], ann_py(a[1]))
  if k in GEN2:
    return "%s[%s, %s]" % (_PY_GEN[k], ann_py(a[1]), ann_py(a[2]))
  raise ValueError(a)


def ann_tok(a):
  """prefix token string for the Lean driver"""
  k = a[0]
  if k in _PY_ANN:
    return k
  if k in ("cls", "typec"):
    return "%s %d" % (k, a[1])
  if k == "opt":
    return "opt " + ann_tok(a[1])
  if k in ("union", "tup"):
    return "%s %d %s" % (k, len(a[1]), " ".join(ann_tok(x) for x in a[1]))
  if k in GEN1:
    return "%s %s" % (k, ann_tok(a[1]))
  if k in GEN2:
    return "%s %s %s" % (k, ann_tok(a[1]), ann_tok(a[2]))
  raise ValueError(a)


def ann_depth(a):
  k = a[0]
  if k in _PY_ANN or k in ("cls", "typec"):
    return 0
  if k in ("union", "tup"):
    return 1 + max([ann_depth(x) for x in a[1]] + [0])
  return 1 + max(ann_depth(x) for x in a[1:])


def ann_hash(a):
  return json.dumps(a)


# ----------------------------------------------------------------------------------------------
# values
# ----------------------------------------------------------------------------------------------
def val_py(v):
  k = v[0]
  if k == "int":
    return str(v[1])
  if k == "bool":
    return "True" if v[1] else "False"
  if k == "float":
    return "%d.5" % v[1]           # never equal to an int
  if k == "complex":
    return "%dj" % (v[1] + 1)      # non-zero imaginary part: never equal to a real number
  if k == "str":
    return json.dumps(v[1])
  if k == "bytes":
    return "b" + json.dumps(v[1])
  if k == "none":
    return "None"
  if k == "inst":
    return "K%d()" % v[1]
  if k == "clsobj":
    return "K%d" % v[1]
  if k == "bclsobj":
    return v[1]
  if k == "func":
    return ["(lambda: 0)", "(lambda x: x)", "fn0"][v[1]]
  if k == "list":
    return "[%s]" % ", ".join(val_py(x) for x in v[1])
  if k == "tuple":
    return "(%s%s)" % (", ".join(val_py(x) for x in v[1]), "," if len(v[1]) == 1 else "")
  if k == "set":
    return "{%s}" % ", ".join(val_py(x) for x in v[1]) if v[1] else "set()"
  if k == "fset":
    return "frozenset([%s])" % ", ".join(val_py(x) for x in v[1]) if v[1] else "frozenset()"
  if k == "dict":
    return "{%s}" % ", ".join("%s: %s" % (val_py(a), val_py(b)) for a, b in v[1])
  raise ValueError(v)


BUILTIN_CLSOBJ = ["int", "str", "list"]


def val_tok(v):
  k = v[0]
  if k in ("int", "float", "complex", "inst", "clsobj", "func"):
    return "%s %d" % (k, v[1])
  if k == "bool":
    return "bool %d" % (1 if v[1] else 0)
  if k == "str":
    return "str %d" % len(v[1])
  if k == "bytes":
    return "bytes %d" % len(v[1])
  if k == "none":
    return "none"
  if k == "bclsobj":
    return "bclsobj " + v[1]
  if k in ("list", "tuple", "set", "fset"):
    return "%s %d %s" % (k, len(v[1]), " ".join(val_tok(x) for x in v[1]))
  if k == "dict":
    return "dict %d %s" % (len(v[1]), " ".join(val_tok(a) + " " + val_tok(b) for a, b in v[1]))
  raise ValueError(v)


def val_depth(v):
  k = v[0]
  if k in ("list", "tuple", "set", "fset"):
    return 1 + max([val_depth(x) for x in v[1]] + [0])
  if k == "dict":
    return 1 + max([max(val_depth(a), val_depth(b)) for a, b in v[1]] + [0])
  return 0


def hashable(v):
  k = v[0]
  if k in ("list", "set", "dict"):
    return False
  if k in ("tuple", "fset"):
    return all(hashable(x) for x in v[1])
  return True


def py_key(v):
  """Python-equality class of a hashable value (1 == True, 0 == False; floats/complex never collide by
  construction): used to keep displays free of keys that CPython would merge."""
  k = v[0]
  if k in ("int", "bool"):
    return ("num", int(v[1]))
  if k in ("tuple",):
    return (k, tuple(py_key(x) for x in v[1]))
  if k == "fset":
    return (k, frozenset(py_key(x) for x in v[1]))
  return (k,) + tuple(v[1:])


def py_distinct(v):
  """no set display / dict display / frozenset argument contains two keys that are equal in Python"""
  k = v[0]
  if k in ("list", "tuple"):
    return all(py_distinct(x) for x in v[1])
  if k in ("set", "fset"):
    keys = [py_key(x) for x in v[1]]
    return len(set(keys)) == len(keys) and all(py_distinct(x) for x in v[1])
  if k == "dict":
    keys = [py_key(a) for a, _ in v[1]]
    return len(set(keys)) == len(keys) and all(py_distinct(a) and py_distinct(b) for a, b in v[1])
  return True


# ----------------------------------------------------------------------------------------------
# hierarchy: NCLS classes, bases among earlier classes (single + multiple inheritance), valid C3
# ----------------------------------------------------------------------------------------------
def gen_hierarchy(rng):
  """returns bases: list of lists (class i's direct bases, indices < i), and the CPython MROs."""
  while True:
    bases = [[]]
    for i in range(1, NCLS):
      r = rng.random()
      if r < 0.25:
        b = []
      elif r < 0.65 or i < 2:
        b = [rng.randrange(i)]
      else:
        b = rng.sample(range(i), 2)
      bases.append(b)
    if not any(len(b) == 2 for b in bases):
      bases[NCLS - 1] = rng.sample(range(NCLS - 1), 2)
    m = hierarchy_mros(bases)
    if m is not None:
      return bases, m


def hierarchy_src(bases):
  return "".join("class K%d(%s): pass\n" % (i, ", ".join("K%d" % b for b in bs)) for i, bs in enumerate(bases))


def hierarchy_mros(bases):
  env = {}
  try:
    exec(hierarchy_src(bases), env)
  except TypeError:
    return None
  return [[int(c.__name__[1:]) for c in env["K%d" % i].__mro__ if c is not object] for i in range(len(bases))]


def hier_tok(mros):
  return "hier %d %s" % (len(mros), " ".join("%d %s" % (len(m), " ".join(map(str, m))) for m in mros))


HEADER = ("from typing import Any, Optional, Union, Sequence, Iterable, Collection, Mapping, Callable\n")


def prelude(bases):
  return HEADER + hierarchy_src(bases) + "def fn0(a, b=0): return a\n"


# ----------------------------------------------------------------------------------------------
# S oracle: independent PEP-484 membership on the REAL run-time value
# ----------------------------------------------------------------------------------------------
def runtime_env(bases):
  env = {}
  exec(prelude(bases), env)
  return env


def member(x, a, env):
  """Is the run-time object `x` an inhabitant of annotation `a` (PEP 484)?  isinstance/collections.abc
  based; written independently of the Lean model."""
  k = a[0]
  if k in ("any", "object"):
    return True
  if k == "int":
    return isinstance(x, int)
  if k == "float":
    return isinstance(x, (int, float))
  if k == "complex":
    return isinstance(x, (int, float, complex))
  if k == "str":
    return isinstance(x, str)
  if k == "bytes":
    return isinstance(x, bytes)
  if k == "bool":
    return isinstance(x, bool)
  if k == "none":
    return x is None
  if k == "cls":
    return isinstance(x, env["K%d" % a[1]])
  if k == "typec":
    return isinstance(x, type) and issubclass(x, env["K%d" % a[1]])
  if k == "typeany":
    return isinstance(x, type)
  if k == "callable":
    return callable(x)
  if k == "opt":
    return x is None or member(x, a[1], env)
  if k == "union":
    return any(member(x, o, env) for o in a[1])
  if k in ("list", "set", "fset"):
    t = {"list": list, "set": set, "fset": frozenset}[k]
    return isinstance(x, t) and all(member(e, a[1], env) for e in x)
  if k == "tuphom":
    return isinstance(x, tuple) and all(member(e, a[1], env) for e in x)
  if k == "tup":
    return isinstance(x, tuple) and len(x) == len(a[1]) and all(member(e, o, env) for e, o in zip(x, a[1]))
  if k in ("seq", "iter", "coll"):
    abc = {"seq": collections.abc.Sequence, "iter": collections.abc.Iterable, "coll": collections.abc.Collection}[k]
    if not isinstance(x, abc):
      return False
    elems = list(x)
    # str / bytes are non-generic: their declared element type (str / int) counts even when empty
    if isinstance(x, str):
      elems.append("x")
    elif isinstance(x, bytes):
      elems.append(0)
    return all(member(e, a[1], env) for e in elems)
  if k in ("dict", "map"):
    t = dict if k == "dict" else collections.abc.Mapping
    return isinstance(x, t) and all(member(kk, a[1], env) and member(vv, a[2], env) for kk, vv in x.items())
  raise ValueError(a)


def oracle(bases, ann, val, env=None):
  env = env or runtime_env(bases)
  x = eval(val_py(val), env)
  return member(x, ann, env)


# ----------------------------------------------------------------------------------------------
# generators (all randomness from the rng passed in)
# ----------------------------------------------------------------------------------------------
def atom_anns():
  return [(s,) for s in SCALAR_ANNS] + [("cls", i) for i in range(NCLS)] + [("typec", i) for i in range(NCLS)]


def gen_ann(rng, depth):
  """random annotation of depth <= depth"""
  if depth == 0 or rng.random() < 0.25:
    r = rng.random()
    if r < 0.62:
      return (rng.choice(SCALAR_ANNS),)
    if r < 0.87:
      return ("cls", rng.randrange(NCLS))
    return ("typec", rng.randrange(NCLS))
  k = rng.choice(GEN1 + GEN2 + ["opt", "union", "union", "tup", "tup"])
  if k in GEN1 or k == "opt":
    return (k, gen_ann(rng, depth - 1))
  if k in GEN2:
    return (k, gen_ann(rng, depth - 1), gen_ann(rng, depth - 1))
  n = rng.choice([2, 2, 3]) if k == "union" else rng.choice([0, 1, 2, 2, 3])
  return (k, [gen_ann(rng, depth - 1) for _ in range(n)])


def gen_scalar(rng, hashable_only=False):
  r = rng.randrange(14)
  if r == 0:
    return ("int", rng.choice([0, 1, 7]))
  if r == 1:
    return ("bool", rng.random() < 0.5)
  if r == 2:
    return ("float", rng.choice([0, 2]))
  if r == 3:
    return ("complex", rng.choice([0, 1]))
  if r in (4, 5):
    return ("str", rng.choice(["", "ab"]))
  if r == 6:
    return ("bytes", rng.choice(["", "ab"]))
  if r in (7, 8):
    return ("none",)
  if r in (9, 10):
    return ("inst", rng.randrange(NCLS))
  if r == 11:
    return ("clsobj", rng.randrange(NCLS))
  if r == 12:
    return ("bclsobj", rng.choice(BUILTIN_CLSOBJ))
  return ("func", rng.randrange(3))


def gen_val(rng, depth, need_hashable=False):
  if depth == 0 or rng.random() < 0.3:
    return gen_scalar(rng)
  kinds = ["tuple", "tuple", "fset"] if need_hashable else ["list", "list", "tuple", "tuple", "set", "fset", "dict", "dict"]
  k = rng.choice(kinds)
  n = rng.choice([0, 1, 1, 2, 2, 3])
  for _ in range(20):
    if k in ("list", "tuple"):
      v = (k, [gen_val(rng, depth - 1, need_hashable) for _ in range(n)])
    elif k in ("set", "fset"):
      v = (k, [gen_val(rng, depth - 1, True) for _ in range(n)])
    else:
      v = (k, [(gen_val(rng, depth - 1, True), gen_val(rng, depth - 1)) for _ in range(n)])
    if py_distinct(v):
      return v
  return (k, [])


def ann_near(rng, v, depth, noise=0.12):
  """annotation correlated with the shape of `v` (so that deep positions decide the outcome)"""
  if rng.random() < noise:
    return gen_ann(rng, depth)
  k = v[0]
  r = rng.random()
  if depth > 0 and r < 0.12:
    return ("opt", ann_near(rng, v, depth - 1, noise))
  if depth > 0 and r < 0.3:
    opts = [ann_near(rng, v, depth - 1, noise), gen_ann(rng, depth - 1)]
    if rng.random() < 0.3:
      opts.append(gen_ann(rng, depth - 1))
    rng.shuffle(opts)
    return ("union", opts)
  if k in ("list", "tuple", "set", "fset", "dict") and depth == 0:
    return (rng.choice(["object", "any", "int", "callable"]),)
  def elem(xs):
    if not xs:
      return gen_ann(rng, depth - 1)
    return ann_near(rng, rng.choice(xs), depth - 1, noise)
  if k == "list":
    return (rng.choice(["list", "list", "seq", "iter", "coll", "tuphom"]), elem(v[1]))
  if k == "tuple":
    if rng.random() < 0.5:
      n = len(v[1]) if rng.random() < 0.85 else rng.choice([0, 1, 2, 3])
      return ("tup", [ann_near(rng, v[1][i], depth - 1, noise) if i < len(v[1]) else gen_ann(rng, depth - 1)
                      for i in range(n)])
    return (rng.choice(["tuphom", "tuphom", "seq", "iter", "coll", "list"]), elem(v[1]))
  if k == "set":
    return (rng.choice(["set", "set", "fset", "iter", "coll", "seq"]), elem(v[1]))
  if k == "fset":
    return (rng.choice(["fset", "fset", "set", "iter", "coll"]), elem(v[1]))
  if k == "dict":
    if rng.random() < 0.3:
      return (rng.choice(["iter", "coll", "seq"]), elem([a for a, _ in v[1]]))
    return (rng.choice(["dict", "map"]), elem([a for a, _ in v[1]]), elem([b for _, b in v[1]]))
  table = {
      "int": ["int", "float", "complex", "bool", "object", "str"],
      "bool": ["bool", "int", "float", "complex", "none"],
      "float": ["float", "complex", "int"],
      "complex": ["complex", "float"],
      "str": ["str", "bytes", "object", "any"],
      "bytes": ["bytes", "str"],
      "none": ["none", "bool", "int", "object", "any"],
      "func": ["callable", "object", "typeany", "any"],
      "bclsobj": ["typeany", "callable", "object", "int", "str"],
  }
  if k in table:
    if k in ("str", "bytes") and depth > 0 and rng.random() < 0.45:
      return (rng.choice(["seq", "iter", "coll"]),
              rng.choice([("str",), ("int",), ("object",), ("any",), ("bytes",), ("seq", ("str",)), ("iter", ("str",)),
                          ("union", [("str",), ("int",)]), ("opt", ("str",))] if depth > 1 else
                         [("str",), ("int",), ("object",), ("any",), ("bytes",)]))
    return (rng.choice(table[k]),)
  if k == "inst":
    return rng.choice([("cls", v[1]), ("cls", rng.randrange(NCLS)), ("cls", rng.randrange(NCLS)), ("object",),
                       ("callable",), ("typec", v[1])])
  if k == "clsobj":
    return rng.choice([("typec", v[1]), ("typec", rng.randrange(NCLS)), ("typec", rng.randrange(NCLS)), ("typeany",),
                       ("callable",), ("cls", v[1]), ("object",)])
  raise ValueError(v)


def gen_pair(rng, adepth=2, vdepth=2):
  v = gen_val(rng, rng.choice([0, 1, 1, 2, 2, 2][:2 * vdepth + 2]) if vdepth else 0)
  if rng.random() < 0.8:
    a = ann_near(rng, v, adepth)
  else:
    a = gen_ann(rng, adepth)
  return a, v


# ----------------------------------------------------------------------------------------------
# module construction: ONE check per line, so (error class, line) identifies (pair, site)
# ----------------------------------------------------------------------------------------------
def build_module(bases, pairs, sites=SITES):
  """returns (source, {line: (pair index, site)})"""
  lines = prelude(bases).rstrip("\n").split("\n")
  where = {}
  if "arg" in sites:
    for i, (a, _) in enumerate(pairs):
      lines.append("def fa_%d(x: %s): pass" % (i, ann_py(a)))
  for i, (a, v) in enumerate(pairs):
    if "arg" in sites:
      lines.append("fa_%d(%s)" % (i, val_py(v)))
      where[len(lines)] = (i, "arg")
    if "ret" in sites:
      lines.append("def fr_%d() -> %s: return %s" % (i, ann_py(a), val_py(v)))
      where[len(lines)] = (i, "ret")
    if "asg" in sites:
      lines.append("va_%d: %s = %s" % (i, ann_py(a), val_py(v)))
      where[len(lines)] = (i, "asg")
  return "\n".join(lines) + "\n", where


_OPTS = None


def _worker_init():
  global _OPTS
  common.load_pytype()
  from pytype import config
  _OPTS = config.Options.create(python_version=(3, 12))


def real_errors(src):
  """runs the real pytype on `src`; returns sorted list of (error name, line)"""
  if _OPTS is None:
    _worker_init()
  from pytype import io
  ret, _ = io.generate_pyi(src, _OPTS)
  return sorted({(e.name, e.line) for e in ret.context.errorlog.unique_sorted_errors()})


def _run_job(job):
  bases, pairs, sites = job
  src, where = build_module(bases, pairs, sites)
  try:
    errs = real_errors(src)
  except Exception as e:  # a crash of the real code is reported as such
    return {"crash": repr(e), "src": src}
  obs = {}
  stray = []
  for name, line in errs:
    if line in where:
      obs.setdefault(where[line], []).append(name)
    else:
      stray.append((name, line))
  return {"obs": [[list(k), sorted(v)] for k, v in obs.items()], "stray": stray}


def run_real(jobs, procs=16):
  """jobs: list of (bases, pairs, sites); returns per job dict {(i, site): [error names]} (absent = no error)"""
  if len(jobs) <= 2:
    outs = [_run_job(j) for j in jobs]
  else:
    ctx = multiprocessing.get_context("fork")
    with ctx.Pool(min(procs, len(jobs)), initializer=_worker_init) as pool:
      outs = pool.map(_run_job, jobs, chunksize=1)
  res = []
  for o in outs:
    if "crash" in o:
      res.append(o)
    else:
      res.append({"obs": {(k[0], k[1]): v for k, v in o["obs"]}, "stray": o["stray"]})
  return res
