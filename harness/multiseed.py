"""Runs the registered quick checks for several VERIF_SEED values on the unchanged tree and reports every run that
is not a clean exit 0 (robustness of the checks themselves: a check that alarms on the unchanged tree is broken).

usage: /venv/bin/python -m harness.multiseed [-j N] [--tier quick|thorough] [--ids C01,C02] seed [seed ...]
Evidence files are rewritten by these runs like by any other; re-run the default seed afterwards.
"""
import concurrent.futures
import json
import os
import subprocess
import sys
import time

VERIF = os.path.dirname(os.path.dirname(os.path.abspath(__file__)))


def main():
  argv = sys.argv[1:]
  jobs, tier, ids = 3, "quick", None
  while argv and argv[0].startswith("-"):
    if argv[0] == "-j":
      jobs = int(argv[1]); argv = argv[2:]
    elif argv[0] == "--tier":
      tier = argv[1]; argv = argv[2:]
    elif argv[0] == "--ids":
      ids = argv[1].split(","); argv = argv[2:]
    else:
      argv = argv[1:]
  seeds = [int(x) for x in argv] or [1, 2, 3]
  if ids is None:
    ids = [l.strip() for l in open(os.path.join(VERIF, "harness", "registry", "READY")) if l.strip() and not l.startswith("#")]
  # one property never runs twice at the same time (shared scratch and replay names)
  def run_prop(pid):
    out = []
    for s in seeds:
      t0 = time.time()
      env = dict(os.environ, VERIF_SEED=str(s))
      r = subprocess.run(["./check", pid, "--tier", tier], cwd=VERIF, env=env, stdout=subprocess.PIPE,
                         stderr=subprocess.STDOUT, text=True)
      lines = [l for l in r.stdout.splitlines() if l.startswith(("VIOLATION", "OK "))]
      rec = {"id": pid, "seed": s, "exit": r.returncode, "wall_s": round(time.time() - t0, 1), "lines": lines[:3]}
      if r.returncode != 0:
        rec["tail"] = r.stdout[-1500:]
      print(json.dumps(rec), flush=True)
      out.append(rec)
    return out
  with concurrent.futures.ThreadPoolExecutor(max_workers=jobs) as ex:
    res = [x for xs in ex.map(run_prop, ids) for x in xs]
  bad = [r for r in res if r["exit"] != 0]
  with open(os.path.join(VERIF, "build", "multiseed-%s.json" % tier), "w") as fh:
    json.dump(res, fh, indent=1)
  print("multiseed: %d runs, %d not clean: %s" % (len(res), len(bad), [(r["id"], r["seed"]) for r in bad]))
  return 1 if bad else 0


if __name__ == "__main__":
  sys.exit(main())
