"""C20 helpers: encoding of Python source for the Lean driver, extraction of what the real
merge_sources did (via `ast`), the property's oracle, program / stub generators."""
import ast
import hashlib
import urllib.parse

TYPING_POOL = ["Any", "List", "Optional", "Dict", "Callable", "Never", "Literal", "Type", "Generic", "TypeVar",
               "NamedTuple"]


# ----------------------------------------------------------------------------
# encoding (ast -> driver tokens); mirrors lean/Driver/C20.lean
# ----------------------------------------------------------------------------
def S(s):
  return "$" + urllib.parse.quote(s, safe="")


def H(node_or_text):
  t = node_or_text if isinstance(node_or_text, str) else ast.unparse(node_or_text)
  return "$h" + hashlib.md5(t.encode()).hexdigest()[:10]


def full_name(n):
  """libcst.helpers.get_full_name_for_node on ast nodes"""
  if isinstance(n, ast.Name):
    return n.id
  if isinstance(n, ast.Attribute):
    return "%s.%s" % (full_name(n.value), n.attr)
  if isinstance(n, ast.Call):
    return full_name(n.func)
  if isinstance(n, ast.Subscript):
    return full_name(n.value)
  return None


def enc_ann(n):
  if isinstance(n, ast.Name):
    return ["n", S(n.id)]
  if isinstance(n, ast.Attribute):
    base = n.value
    ok = True
    while isinstance(base, ast.Attribute):
      base = base.value
    ok = isinstance(base, ast.Name)
    if ok:
      return ["d", S(ast.unparse(n.value)), S(n.attr)]
    return ["c", S(ast.unparse(n))]
  if isinstance(n, ast.Subscript):
    return ["s"] + enc_ann(n.value) + enc_slice(n.slice)
  if isinstance(n, ast.BinOp) and isinstance(n.op, ast.BitOr):
    return ["b"] + enc_ann(n.left) + enc_ann(n.right)
  if isinstance(n, ast.List):
    if not n.elts:
      return ["l", "c", S("")]
    return ["l"] + enc_elts(n.elts)
  if isinstance(n, ast.Constant) and isinstance(n.value, str):
    return ["q", S(n.value)]
  return ["c", S(ast.unparse(n))]


def enc_elts(elts):
  if len(elts) == 1:
    return enc_ann(elts[0])
  return ["t"] + enc_ann(elts[0]) + enc_elts(elts[1:])


def enc_slice(sl):
  if isinstance(sl, ast.Tuple) and len(sl.elts) >= 2:
    return enc_elts(sl.elts)
  return enc_ann(sl)


def enc_optann(n):
  return ["-"] if n is None else ["+"] + enc_ann(n)


def params_of(args):
  """[(name, kind, annotation node|None, default node|None)] in the order of the model"""
  out = []
  npo = len(args.posonlyargs)
  allpos = args.posonlyargs + args.args
  defaults = [None] * (len(allpos) - len(args.defaults)) + list(args.defaults)
  for i, a in enumerate(allpos):
    out.append((a.arg, "po" if i < npo else "p", a.annotation, defaults[i]))
  if args.vararg is not None:
    out.append((args.vararg.arg, "st", args.vararg.annotation, None))
  elif args.kwonlyargs:
    out.append(("", "st", None, None))
  for a, d in zip(args.kwonlyargs, args.kw_defaults):
    out.append((a.arg, "kw", a.annotation, d))
  if args.kwarg is not None:
    out.append((args.kwarg.arg, "ss", args.kwarg.annotation, None))
  return out


def enc_target_single(t):
  if isinstance(t, ast.Name):
    return ["n", S(t.id)]
  if isinstance(t, (ast.Tuple, ast.List)):
    out = ["t", str(len(t.elts))]
    for e in t.elts:
      if isinstance(e, ast.Starred):
        e = e.value
      fn = full_name(e)
      out += ["-"] if fn is None else ["+", S(fn)]
    return out
  if isinstance(t, ast.Attribute):
    return ["d", S(full_name(t))]
  return ["o", H(t)]


def has_typevar_call(node):
  for x in ast.walk(node):
    if isinstance(x, ast.Call) and isinstance(x.func, ast.Name) and x.func.id == "TypeVar":
      return True
  return False


def enc_block(hdr, body):
  b = enc_stmts(body)
  return ["B", H(hdr), str(b[0])] + b[1]


def enc_stmts(body):
  """-> (count, tokens)"""
  n = 0
  toks = []
  for s in body:
    k, t = enc_stmt(s)
    n += k
    toks += t
  return n, toks


def enc_base(b):
  if isinstance(b, (ast.Name, ast.Attribute, ast.Subscript)):
    return enc_ann(b)
  return ["c", S(ast.unparse(b))]


def sub_blocks(s):
  """compound statements whose bodies stay in the same scope: [(header text, [stmts])] in libcst visiting order"""
  if isinstance(s, ast.If):
    return [("if " + ast.unparse(s.test), s.body), ("else", s.orelse)]
  if isinstance(s, (ast.For, ast.AsyncFor)):
    return [("for " + ast.unparse(s.target) + " in " + ast.unparse(s.iter), s.body), ("else", s.orelse)]
  if isinstance(s, ast.While):
    return [("while " + ast.unparse(s.test), s.body), ("else", s.orelse)]
  if isinstance(s, (ast.With, ast.AsyncWith)):
    return [("with " + ", ".join(ast.unparse(i) for i in s.items), s.body)]
  if isinstance(s, ast.Try):
    out = [("try", s.body)]
    for h in s.handlers:
      out.append(("except " + (ast.unparse(h.type) if h.type else "") + " as " + str(h.name), h.body))
    out += [("else", s.orelse), ("finally", s.finalbody)]
    return out
  return None


def enc_stmt(s):
  """-> (number of model statements, tokens)"""
  if isinstance(s, (ast.FunctionDef, ast.AsyncFunctionDef)):
    decos = [H(d) for d in s.decorator_list] + ([S("async")] if isinstance(s, ast.AsyncFunctionDef) else [])
    ps = params_of(s.args)
    t = ["F", S(s.name), str(len(decos))] + decos + [str(len(ps))]
    for name, kind, ann, d in ps:
      t += [S(name), kind] + enc_optann(ann) + (["-"] if d is None else ["+", H(d)])
    t += enc_optann(s.returns)
    n, b = enc_stmts(s.body)
    return 1, t + [str(n)] + b
  if isinstance(s, ast.ClassDef):
    decos = [H(d) for d in s.decorator_list]
    bases = [enc_base(b) for b in s.bases] + [["c", S(ast.unparse(k))] for k in s.keywords]
    t = ["C", S(s.name), str(len(decos))] + decos + [str(len(bases))]
    for b in bases:
      t += b
    n, b = enc_stmts(s.body)
    return 1, t + [str(n)] + b
  if isinstance(s, ast.AnnAssign):
    tg = s.target
    if isinstance(tg, ast.Name):
      tt = ["n", S(tg.id)]
    elif isinstance(tg, ast.Attribute):
      tt = ["d", S(full_name(tg))]
    else:
      tt = ["o", H(tg)]
    return 1, ["AA"] + tt + enc_ann(s.annotation) + (["-"] if s.value is None else ["+", H(s.value)])
  if isinstance(s, ast.Assign):
    if len(s.targets) == 1:
      tg = [enc_target_single(s.targets[0])]
    else:
      tg = []
      for t in s.targets:
        if isinstance(t, (ast.Name, ast.Attribute)):
          tg.append(enc_target_single(t))
        elif isinstance(t, (ast.Tuple, ast.List)):
          tg.append(enc_target_single(t))
        else:
          tg.append(["o", H(t)])
    out = ["AS", str(len(tg))]
    for t in tg:
      out += t
    return 1, out + [H(s.value), "1" if has_typevar_call(s) else "0"]
  if isinstance(s, ast.Import):
    toks = []
    for a in s.names:
      toks += ["IM", S(a.asname or a.name)]
    return len(s.names), toks
  if isinstance(s, ast.ImportFrom):
    names = [a.asname or a.name for a in s.names if a.name != "*"]
    return 1, ["IF", S("." * s.level + (s.module or "")), str(len(names))] + [S(x) for x in names]
  blocks = sub_blocks(s)
  if blocks is not None:
    # first block carries the others nested at its end, so that the visiting order is kept
    hdr, body = blocks[0]
    n, b = enc_stmts(body)
    for h2, b2 in blocks[1:]:
      if b2:
        n2, t2 = enc_stmts(b2)
        b += ["B", H(h2), str(n2)] + t2
        n += 1
    return 1, ["B", H(hdr), str(n)] + b
  return 1, ["O", H(s)]


def enc_case(py_src, pyi_src):
  n1, t1 = enc_stmts(ast.parse(py_src).body)
  n2, t2 = enc_stmts(ast.parse(pyi_src).body)
  return " ".join(["merge", str(n1)] + t1 + [str(n2)] + t2)


# ----------------------------------------------------------------------------
# what the real merge did: alignment of the output with the original
# ----------------------------------------------------------------------------
class _Strip(ast.NodeTransformer):
  """removes every annotation; `x: T = v` -> `x = v`; bare `x: T` -> removed"""

  def visit_FunctionDef(self, node):
    self.generic_visit(node)
    node.returns = None
    for a in node.args.posonlyargs + node.args.args + node.args.kwonlyargs:
      a.annotation = None
    if node.args.vararg:
      node.args.vararg.annotation = None
    if node.args.kwarg:
      node.args.kwarg.annotation = None
    return node

  visit_AsyncFunctionDef = visit_FunctionDef

  def visit_AnnAssign(self, node):
    self.generic_visit(node)
    if node.value is None:
      return None
    return ast.copy_location(ast.Assign(targets=[node.target], value=node.value), node)


def erased_dump(stmt):
  import copy
  s = _Strip().visit(copy.deepcopy(stmt))
  if s is None:
    return ""
  if isinstance(s, list):
    return "|".join(ast.dump(x) for x in s)
  return ast.dump(s)


def is_typevar_def(s):
  return isinstance(s, ast.Assign) and has_typevar_call(s.value)


def align(orig_body, new_body):
  """Greedy alignment of the module-level statements.  Returns (pairs, added, problems):
  pairs = [(orig stmt, new stmt)], added = dict(imports=[(module,name)], decls=[AnnAssign],
  typevars=[Assign], classes=[ClassDef]), problems = [text] for anything else."""
  pairs = []
  added = {"imports": [], "decls": [], "typevars": [], "classes": []}
  problems = []
  i = 0
  for m in new_body:
    o = orig_body[i] if i < len(orig_body) else None
    if o is not None:
      if isinstance(o, ast.ImportFrom) and isinstance(m, ast.ImportFrom) and o.module == m.module \
          and o.level == m.level:
        on = [(a.name, a.asname) for a in o.names]
        mn = [(a.name, a.asname) for a in m.names]
        if all(x in mn for x in on):
          for x in mn:
            if x not in on:
              added["imports"].append((m.module, x[0]))
          pairs.append((o, m))
          i += 1
          continue
      if isinstance(m, ast.AnnAssign) and m.value is None:
        if isinstance(o, ast.AnnAssign) and o.value is None and ast.dump(o) == ast.dump(m):
          pairs.append((o, m))
          i += 1
          continue
      elif erased_dump(o) == erased_dump(m) and erased_dump(o) != "":
        pairs.append((o, m))
        i += 1
        continue
      elif isinstance(o, ast.ClassDef) and isinstance(m, ast.ClassDef) and o.name == m.name and \
          len(m.bases) == len(o.bases) + 1:
        # a base was added: still the same statement (reported by the erase clause)
        pairs.append((o, m))
        i += 1
        continue
    # not matched: must be something the merge added
    if isinstance(m, ast.ImportFrom):
      for a in m.names:
        added["imports"].append((m.module, a.name))
    elif isinstance(m, ast.AnnAssign) and m.value is None and isinstance(m.target, ast.Name):
      added["decls"].append(m)
    elif is_typevar_def(m):
      added["typevars"].append(m)
    elif isinstance(m, ast.ClassDef):
      added["classes"].append(m)
    else:
      problems.append("unexpected statement in output: " + ast.unparse(m)[:80])
  if i < len(orig_body):
    problems.append("statement of the program missing in output: " + ast.unparse(orig_body[i])[:80])
  return pairs, added, problems


def flat_stmt(s, out):
  """mirror of `flat` in the driver"""
  if isinstance(s, (ast.FunctionDef, ast.AsyncFunctionDef)):
    ps = params_of(s.args)
    out += ["F", S(s.name)] + enc_optann(s.returns) + [str(len(ps))]
    for _, _, ann, _ in ps:
      out += enc_optann(ann)
    for b in s.body:
      flat_stmt(b, out)
  elif isinstance(s, ast.ClassDef):
    bases = [enc_base(b) for b in s.bases] + [["c", S(ast.unparse(k))] for k in s.keywords]
    out += ["C", S(s.name), str(len(bases))]
    for b in bases:
      out += b
    for b in s.body:
      flat_stmt(b, out)
  elif isinstance(s, ast.AnnAssign):
    tg = s.target
    if isinstance(tg, ast.Name):
      out += ["A", "n", S(tg.id)]
    elif isinstance(tg, ast.Attribute):
      out += ["A", "d", S(full_name(tg))]
    else:
      out += ["A", "o", H(tg)]
    out += enc_ann(s.annotation) + ["v" if s.value is not None else "n"]
  elif isinstance(s, ast.Assign):
    out.append("S")
  else:
    blocks = sub_blocks(s)
    if blocks:
      for _, body in blocks:
        for b in body:
          flat_stmt(b, out)


def real_view(py_src, out_src):
  """canonical description of the real output in the vocabulary of the driver's answer"""
  o = ast.parse(py_src)
  m = ast.parse(out_src)
  pairs, added, problems = align(o.body, m.body)
  body = []
  for _, ms in pairs:
    flat_stmt(ms, body)
  return {
      "imports": sorted(set(added["imports"])),
      "decls": sorted((d.target.id, " ".join(enc_ann(d.annotation))) for d in added["decls"]),
      "typevars": sorted(full_name(t.targets[0]) or "?" for t in added["typevars"]),
      "classes": sorted(c.name for c in added["classes"]),
      "body": " ".join(body),
      "problems": problems,
  }


def parse_answer(line):
  """driver answer -> same shape as real_view (plus flags)"""
  if line.startswith("err"):
    return {"err": line.split(" ", 1)[1]}
  head, _, body = line.partition(" | ")
  if line.endswith(" |"):
    head, body = line[:-2], ""
  t = head.split(" ")
  assert t[0] == "ok" and t[1] == "I", line[:80]
  pos = 2
  n = int(t[pos]); pos += 1
  imports = []
  for _ in range(n):
    imports.append((urllib.parse.unquote(t[pos][1:]), urllib.parse.unquote(t[pos + 1][1:])))
    pos += 2
  assert t[pos] == "D"; pos += 1
  n = int(t[pos]); pos += 1
  decls = []
  for _ in range(n):
    name = urllib.parse.unquote(t[pos][1:]); pos += 1
    start = pos
    pos = skip_ann(t, pos)
    decls.append((name, " ".join(t[start:pos])))
  assert t[pos] == "T"; pos += 1
  n = int(t[pos]); pos += 1
  tvs = [urllib.parse.unquote(x[1:]) for x in t[pos:pos + n]]; pos += n
  assert t[pos] == "K"; pos += 1
  n = int(t[pos]); pos += 1
  cls = [urllib.parse.unquote(x[1:]) for x in t[pos:pos + n]]; pos += n
  assert t[pos] == "G"
  flags = {"leaked": t[pos + 1] == "1", "scopeTop": t[pos + 2] == "1", "genericAdded": t[pos + 3] == "1",
           "stubOK": t[pos + 4] == "1", "noDottedAny": t[pos + 5] == "1"}
  return {"imports": sorted(set(imports)), "decls": sorted(decls), "typevars": sorted(tvs), "classes": sorted(cls),
          "body": body.strip(), "flags": flags}


def skip_ann(t, pos):
  k = t[pos]
  if k in ("n", "c", "q"):
    return pos + 2
  if k == "d":
    return pos + 3
  if k in ("s", "t", "b"):
    return skip_ann(t, skip_ann(t, pos + 1))
  if k == "l":
    return skip_ann(t, pos + 1)
  raise ValueError("bad ann token %r" % k)


# ----------------------------------------------------------------------------
# the property's oracle (uses `ast` only, no model)
# ----------------------------------------------------------------------------
def norm_ann(n):
  """annotation text up to `typing.` qualification and quoting of a forward reference"""
  if n is None:
    return None
  if isinstance(n, ast.Constant) and isinstance(n.value, str) and n.value.isidentifier():
    return n.value

  class T(ast.NodeTransformer):
    def visit_Attribute(self, node):
      self.generic_visit(node)
      if isinstance(node.value, ast.Name) and node.value.id == "typing":
        return ast.Name(id=node.attr, ctx=ast.Load())
      return node
  import copy
  return ast.unparse(T().visit(copy.deepcopy(n)))


def is_bare_any(n):
  if isinstance(n, ast.Name) and n.id in ("Any", "Never"):
    return True
  if isinstance(n, ast.Attribute) and isinstance(n.value, ast.Name) and n.value.id == "typing" \
      and n.attr in ("Any", "Never"):
    return True
  return False


def stub_table(pyi_src):
  """qualified name -> list of definitions of the raw stub"""
  funcs, vars_ = {}, {}

  def walk(body, path):
    for s in body:
      if isinstance(s, (ast.FunctionDef, ast.AsyncFunctionDef)):
        funcs.setdefault(".".join(path + [s.name]), []).append(s)
      elif isinstance(s, ast.ClassDef):
        walk(s.body, path + [s.name])
      elif isinstance(s, ast.AnnAssign) and isinstance(s.target, ast.Name):
        vars_.setdefault(".".join(path + [s.target.id]), []).append(s.annotation)
      else:
        bl = sub_blocks(s)
        if bl:
          for _, b in bl:
            walk(b, path)
  walk(ast.parse(pyi_src).body, [])
  return funcs, vars_


def slots_of(fn):
  """[(slot, annotation)] positional(-only) by index, keyword-only by name"""
  out = [("ret", fn.returns)]
  i = j = 0
  for name, kind, ann, _ in params_of(fn.args):
    if kind == "p":
      out.append(("pos%d" % i, ann)); i += 1
    elif kind == "po":
      out.append(("posonly%d" % j, ann)); j += 1
    elif kind == "kw":
      out.append(("kw:" + name, ann))
    elif kind == "st":
      out.append(("star", ann))
    else:
      out.append(("starstar", ann))
  return out


def oracle(py_src, pyi_src, out_src):
  """-> dict clause -> [messages]; empty dict = the property holds on this pair.
  Clauses: compile, erase, kept, from_stub, bare_any."""
  v = {}

  def bad(c, msg):
    v.setdefault(c, []).append(msg)
  try:
    compile(out_src, "<merged>", "exec")
    m = ast.parse(out_src)
  except SyntaxError as e:
    bad("compile", "output does not compile: %s" % e)
    return v
  o = ast.parse(py_src)
  pairs, added, problems = align(o.body, m.body)
  for p in problems:
    bad("erase", p)
  for mod, name in added["imports"]:
    if mod != "typing":
      bad("erase", "import added that is not a typing import: from %s import %s" % (mod, name))
  for c in added["classes"]:
    bad("erase", "class definition added: class %s" % c.name)
  for os_, ms in pairs:
    if isinstance(os_, ast.ImportFrom):
      continue
    if erased_dump(os_) != erased_dump(ms):
      bad("erase", "statement changed beyond annotations: %s" % ast.unparse(ms).split("\n")[0][:80])
  funcs, vars_ = stub_table(pyi_src)

  def check_var(qn, old, new, what):
    if old is not None:
      if new is None or ast.unparse(old) != ast.unparse(new):
        bad("kept", "%s: existing annotation %s not kept" % (qn, ast.unparse(old)))
      return
    if new is None:
      return
    if is_bare_any(new):
      bad("bare_any", "%s: bare %s inserted as %s annotation" % (qn, ast.unparse(new), what))
    cands = vars_.get(qn, [])
    if not any(norm_ann(c) == norm_ann(new) for c in cands):
      bad("from_stub", "%s: inserted %s is not the stub's annotation (%s)" % (
          qn, ast.unparse(new), [ast.unparse(c) for c in cands]))

  def walk(ob, mb, path):
    if len(ob) != len(mb):
      return  # already reported by the erase clause
    for a, b in zip(ob, mb):
      if isinstance(a, (ast.FunctionDef, ast.AsyncFunctionDef)) and type(a) is type(b):
        qn = ".".join(path + [a.name])
        sa, sb = slots_of(a), slots_of(b)
        if [s for s, _ in sa] != [s for s, _ in sb]:
          continue
        for (slot, old), (_, new) in zip(sa, sb):
          if old is not None:
            if new is None or ast.unparse(old) != ast.unparse(new):
              bad("kept", "%s/%s: existing annotation %s not kept" % (qn, slot, ast.unparse(old)))
            continue
          if new is None:
            continue
          if slot == "ret" and is_bare_any(new):
            bad("bare_any", "%s: bare %s inserted as return annotation" % (qn, ast.unparse(new)))
          ok = False
          for f in funcs.get(qn, []):
            d = dict(slots_of(f))
            if slot in d and d[slot] is not None and norm_ann(d[slot]) == norm_ann(new):
              ok = True
          if not ok:
            bad("from_stub", "%s/%s: inserted %s is not the stub's annotation" % (qn, slot, ast.unparse(new)))
        walk(a.body, b.body, path + [a.name, "<locals>"])
      elif isinstance(a, ast.ClassDef) and isinstance(b, ast.ClassDef):
        walk(a.body, b.body, path + [a.name])
      elif isinstance(a, ast.AnnAssign) and isinstance(b, ast.AnnAssign):
        check_var("?", a.annotation, b.annotation, "variable")
      elif isinstance(a, ast.Assign) and isinstance(b, ast.AnnAssign):
        if isinstance(b.target, ast.Name):
          check_var(".".join(path + [b.target.id]), None, b.annotation, "variable")
      else:
        ba, bb = sub_blocks(a), sub_blocks(b) if type(a) is type(b) else None
        if ba and bb and len(ba) == len(bb):
          for (_, x), (_, y) in zip(ba, bb):
            walk(x, y, path)
  walk([p[0] for p in pairs], [p[1] for p in pairs], [])
  for d in added["decls"]:
    check_var(d.target.id, None, d.annotation, "variable")
  return v


# ----------------------------------------------------------------------------
# generators
# ----------------------------------------------------------------------------
VALUES = ["1", "'s'", "1.5", "[]", "[1]", "{}", "{'a': 1}", "None", "(1, 'a')", "True", "lambda q: q",
          "[i for i in range(3)]", "{1, 2}", "b'x'"]
SRC_ANN = ["int", "str", "list[int]", "dict[str, int]", "float", "bool", "object"]
SRC_ANN_TYPING = {"Any": "Any", "List": "List[int]", "Optional": "Optional[int]", "Dict": "Dict[str, int]"}
STUB_TYPES = ["int", "str", "float", "bool", "Any", "Any", "Never", "list[int]", "List[Any]", "Optional[int]",
              "dict[str, Any]", "Literal[1]", "Literal['a', 'b']", "Callable[[int], str]", "Callable[[], Any]",
              "int | None", "list[int | str]", "tuple[int, str]", "object", "None", "T", "T", "complex",
              "Type[int]", "type[int]"]


class Prog:
  """generated program: text lines + the list of definitions (for the independent stub generator)"""

  def __init__(self):
    self.lines = []
    self.defs = []     # ("func", path, name, params, is_method) / ("var", path, name) / ("class", path, name, body defs)
    self.imports = []  # typing names imported with `from typing import`
    self.import_typing = False
    self.classes = []
    self.used = {}


def gen_params(rng, method=None):
  """-> list of (name, kind, default text|None); kinds as in params_of"""
  ps = []
  names = ["a", "b", "c", "d", "e", "k", "m", "n"]
  rng.shuffle(names)
  it = iter(names)
  npo = rng.choice([0, 0, 0, 0, 1])
  npos = rng.choice([0, 1, 1, 2, 2, 3])
  star = rng.choice([None, None, None, "args", "bare"])
  nkw = rng.choice([0, 0, 1, 2]) if star else 0
  if star == "bare" and nkw == 0:
    nkw = 1
  ss = rng.random() < 0.2
  seen_default = False
  po = []
  for _ in range(npo):
    po.append((next(it), "po", None))
  pos = []
  for _ in range(npos):
    d = None
    if seen_default or rng.random() < 0.3:
      d = rng.choice(VALUES[:10])
      seen_default = True
    pos.append((next(it), "p", d))
  if method in ("self", "cls"):
    # self/cls must come first: positional-only too when there are positional-only parameters
    ps = ([(method, "po", None)] + po + pos) if po else ([(method, "p", None)] + pos)
  else:
    ps = po + pos
  if star == "args":
    ps.append(("args", "st", None))
  elif star == "bare":
    ps.append(("", "st", None))
  for _ in range(nkw):
    ps.append((next(it), "kw", rng.choice([None, "1", "None"])))
  if ss:
    ps.append(("kw", "ss", None))
  return ps


def render_params(ps, anns):
  """anns: dict index -> annotation text"""
  out = []
  prev_kind = None
  for i, (name, kind, d) in enumerate(ps):
    if prev_kind == "po" and kind != "po":
      out.append("/")
    a = anns.get(i)
    if kind == "st":
      s = "*" + name
    elif kind == "ss":
      s = "**" + name
    else:
      s = name
    if a is not None and name:
      s += ": " + a
      if d is not None:
        s += " = " + d
    elif d is not None:
      s += "=" + d
    out.append(s)
    prev_kind = kind
  if prev_kind == "po":
    out.append("/")
  return ", ".join(out)


def src_ann(rng, prog):
  pool = list(SRC_ANN) + [SRC_ANN_TYPING[n] for n in prog.imports if n in SRC_ANN_TYPING]
  if prog.classes and rng.random() < 0.2:
    return rng.choice(prog.classes)
  return rng.choice(pool)


def gen_func(rng, prog, path, indent, method=None, depth=0):
  name = rng.choice(["f", "g", "h", "k", "run", "get"])
  kind = None
  if method:
    kind = rng.choice([None, None, None, "staticmethod", "classmethod", "property"])
  ps = gen_params(rng, {None: "self" if method else None, "staticmethod": None, "classmethod": "cls",
                        "property": "self"}[kind])
  if kind == "property":
    ps = [("self", "p", None)]
  anns = {}
  for i, (pn, pk, _) in enumerate(ps):
    if pn and pn not in ("self", "cls") and rng.random() < 0.2:
      anns[i] = src_ann(rng, prog)
  ret = src_ann(rng, prog) if rng.random() < 0.15 else None
  pad = "    " * indent
  is_async = rng.random() < 0.1 and kind is None
  if kind:
    prog.lines.append(pad + "@" + kind)
  elif rng.random() < 0.12:
    prog.lines.append(pad + "@deco")
  prog.lines.append("%s%sdef %s(%s)%s:" % (pad, "async " if is_async else "", name, render_params(ps, anns),
                                          " -> " + ret if ret else ""))
  usable = [pn for pn, pk, _ in ps if pn and pk in ("p", "po", "kw")]
  body_kind = rng.choice(["ret", "ret", "local", "nested", "none", "yield"] if depth == 0 else ["ret", "none"])
  if is_async and body_kind == "yield":
    body_kind = "ret"
  if body_kind == "ret":
    prog.lines.append(pad + "    return " + (rng.choice(usable) if usable and rng.random() < 0.5 else rng.choice(VALUES)))
  elif body_kind == "local":
    prog.lines.append(pad + "    tmp: int = 1")
    prog.lines.append(pad + "    loc = [tmp]")
    prog.lines.append(pad + "    return loc")
  elif body_kind == "nested":
    gen_func(rng, prog, path + [name, "<locals>"], indent + 1, depth=1)
    prog.lines.append(pad + "    return 0")
  elif body_kind == "yield":
    prog.lines.append(pad + "    yield " + rng.choice(VALUES[:6]))
  else:
    prog.lines.append(pad + "    pass")
  prog.defs.append(("func", list(path), name, ps, kind))


def fresh_name(rng, prog, path, names):
  """mostly a name not yet assigned in this scope (a second plain assignment to an annotated name is the
  libcst qualifier leak, a characterised region: kept rare)"""
  used = prog.used.setdefault(tuple(path), set())
  cands = [n for n in names + [x + "2" for x in names] + [x + "3" for x in names] if n not in used]
  n = rng.choice(cands) if cands and rng.random() < 0.97 else rng.choice(names)
  used.add(n)
  return n


def gen_var(rng, prog, path, indent, names):
  pad = "    " * indent
  r = rng.random()
  if r < 0.5:
    form = "plain"
  elif r < 0.5 + (0.04 if path else 0.12):
    form = rng.choice(["multi", "tuple"])
  elif r < 0.66:
    form = "re" if rng.random() < 0.2 else "plain"
  else:
    form = rng.choice(["ann", "ann", "bare", "attr", "sub", "aug"])
  n = fresh_name(rng, prog, path, names)
  v = rng.choice(VALUES)
  if path and "for i in" in v and rng.random() < 0.85:
    # a class-level comprehension makes pytype print the attribute `.0: Any` (invalid stub, known finding)
    v = "[1, 2]"
  if form == "plain":
    prog.lines.append("%s%s = %s" % (pad, n, v))
    prog.defs.append(("var", list(path), n))
  elif form == "multi":
    n2 = fresh_name(rng, prog, path, names)
    prog.lines.append("%s%s = %s = %s" % (pad, n, n2, v))
    prog.defs.append(("var", list(path), n))
    prog.defs.append(("var", list(path), n2))
  elif form == "tuple":
    n2 = fresh_name(rng, prog, path, names)
    star = rng.random() < 0.2
    prog.lines.append("%s%s, %s%s = %s, %s%s" % (pad, n, "*" if star else "", n2, v, rng.choice(VALUES),
                                               ", 3" if star else ""))
    prog.defs.append(("var", list(path), n))
    prog.defs.append(("var", list(path), n2))
  elif form == "re":
    prog.lines.append("%s%s = %s" % (pad, n, v))
    prog.lines.append("%s%s = %s" % (pad, n, rng.choice(VALUES)))
    prog.defs.append(("var", list(path), n))
  elif form == "ann":
    prog.lines.append("%s%s: %s = %s" % (pad, n, src_ann(rng, prog), v))
    prog.defs.append(("var", list(path), n))
  elif form == "bare":
    prog.lines.append("%s%s: %s" % (pad, n, src_ann(rng, prog)))
    prog.defs.append(("var", list(path), n))
  elif form == "attr" and prog.classes and not path:
    c = rng.choice(prog.classes)
    how = rng.choice(["single", "single", "multi", "tuple"])
    if how == "single":
      prog.lines.append("%s%s.%s = %s" % (pad, c, n, v))
    elif how == "multi":
      prog.lines.append("%s%s.%s = %s = %s" % (pad, c, n, rng.choice(names), v))
    else:
      prog.lines.append("%s%s.%s, %s = %s, 2" % (pad, c, n, rng.choice(names), v))
  elif form == "sub":
    prog.lines.append("%stable = {}" % pad)
    prog.lines.append("%stable[%s] = %s" % (pad, "1", v))
    prog.defs.append(("var", list(path), "table"))
  else:
    prog.lines.append("%scounter = 0" % pad)
    prog.lines.append("%scounter += 1" % pad)
    prog.defs.append(("var", list(path), "counter"))


def gen_class(rng, prog, path, indent, depth=0):
  name = rng.choice(["A", "B", "C", "D"])
  pad = "    " * indent
  bases = []
  if prog.classes and rng.random() < 0.3 and not path:
    bases.append(rng.choice(prog.classes))
  if "Generic" in prog.imports and "TypeVar" in prog.imports and rng.random() < 0.3:
    bases.append("Generic[T]")
  prog.lines.append("%sclass %s%s:" % (pad, name, "(" + ", ".join(bases) + ")" if bases else ""))
  n = rng.randrange(1, 5)
  start = len(prog.lines)
  for _ in range(n):
    r = rng.random()
    if r < 0.45:
      gen_func(rng, prog, path + [name], indent + 1, method=True)
    elif r < 0.9:
      gen_var(rng, prog, path + [name], indent + 1, ["x", "y", "z", "w"])
    elif depth == 0:
      gen_class(rng, prog, path + [name], indent + 1, depth=1)
    else:
      prog.lines.append(pad + "    pass")
  if len(prog.lines) == start:
    prog.lines.append(pad + "    pass")
  prog.defs.append(("class", list(path), name))
  if not path:
    prog.classes.append(name)


def gen_program(rng):
  prog = Prog()
  if rng.random() < 0.25:
    prog.lines.append('"""module docstring"""')
  r = rng.random()
  if r < 0.12:
    prog.import_typing = True
    prog.lines.append("import typing")
  elif r < 0.5:
    k = rng.randrange(1, 4)
    prog.imports = sorted(rng.sample(["Any", "List", "Optional", "Dict", "TypeVar", "Generic", "Callable"], k))
    if "Generic" in prog.imports and "TypeVar" not in prog.imports:
      prog.imports.append("TypeVar")
    prog.lines.append("from typing import " + ", ".join(prog.imports))
  if "TypeVar" in prog.imports and rng.random() < 0.7:
    prog.lines.append("T = TypeVar('T')")
  if rng.random() < 0.5:
    prog.lines += ["def deco(fn):", "    return fn"]
    has_deco = True
  else:
    has_deco = False
  n = rng.randrange(2, 8)
  for _ in range(n):
    r = rng.random()
    if r < 0.35:
      before = len(prog.lines)
      gen_func(rng, prog, [], 0)
      if not has_deco:
        prog.lines[before:] = [l for l in prog.lines[before:] if l.strip() != "@deco"]
    elif r < 0.6:
      before = len(prog.lines)
      gen_class(rng, prog, [], 0)
      if not has_deco:
        prog.lines[before:] = [l for l in prog.lines[before:] if l.strip() != "@deco"]
    elif r < 0.85:
      gen_var(rng, prog, [], 0, ["x", "y", "z", "u", "v"])
    elif r < 0.93:
      hdr = rng.choice(["if len(str(1)) > 0:", "for _i in range(2):", "try:", "while False:"])
      prog.lines.append(hdr)
      sub = Prog()
      sub.imports, sub.classes, sub.used = prog.imports, prog.classes, prog.used
      if rng.random() < 0.5:
        gen_var(rng, sub, [], 1, ["x", "y", "p", "q"])
      else:
        gen_func(rng, sub, [], 1)
        sub.lines = [l for l in sub.lines if l.strip() != "@deco"] if not has_deco else sub.lines
      prog.lines += sub.lines
      prog.defs += sub.defs
      if hdr == "try:":
        prog.lines += ["except Exception:", "    pass"]
      elif hdr.startswith("if") and rng.random() < 0.5:
        prog.lines += ["else:", "    fallback = 1"]
        prog.defs.append(("var", [], "fallback"))
    else:
      prog.lines.append(rng.choice(["print(1)", "assert True", "foo = lambda x: x", "del_me = 1\ndel del_me",
                                    "_ = 0"]))
  return "\n".join(prog.lines) + "\n", prog


def stub_type(rng, prog, variable=False, classes=()):
  r = rng.random()
  if r < 0.012:
    return "typing." + rng.choice(["Any", "Never", "List[int]", "Optional[str]"])
  if r < 0.02 and classes:
    return rng.choice(classes) + "." + rng.choice(["Inner", "B"])
  if r < 0.17 and classes:
    return rng.choice(classes)
  if r < 0.25 and prog.imports:
    n = rng.choice(prog.imports)
    if n in SRC_ANN_TYPING:
      return SRC_ANN_TYPING[n]
  return rng.choice(STUB_TYPES)


def gen_stub(rng, prog):
  """independent stub for the definitions of `prog` (same qualified names), with the whole menu of
  Any/Never/trivial types, TypeVars, extra/missing definitions, mismatched parameter lists."""
  allc = [d[2] for d in prog.defs if d[0] == "class"]
  # class names usable in annotations: top-level and not also the name of a nested class (libcst resolves
  # a name through the enclosing class scopes of the stub; the model does not)
  classes = [d[2] for d in prog.defs if d[0] == "class" and not d[1] and allc.count(d[2]) == 1]
  tree = {}  # path tuple -> list of lines (without indentation)

  def emit(path, line):
    tree.setdefault(tuple(path), []).append(line)
  used_existing = rng.random() < 0.5  # sometimes repeat the program's own existing annotations exactly
  for d in prog.defs:
    if rng.random() < 0.12:
      continue
    if d[0] == "func":
      _, path, name, ps, kind = d
      if "<locals>" in path:
        continue
      ps = list(ps)
      m = rng.random()
      if m < 0.06 and ps:
        ps.pop(rng.randrange(len(ps)))
      elif m < 0.12:
        npos_ = len([q for q in ps if q[1] in ("po", "p")])
        ps.insert(npos_, ("extra", "p", None))
      elif m < 0.2 and ps:
        i = rng.randrange(len(ps))
        if ps[i][0]:
          ps[i] = (ps[i][0] + "_r", ps[i][1], ps[i][2])
      elif m < 0.24:
        ps = [p for p in ps if p[1] != "st" or any(q[1] == "kw" for q in ps)]
      if not any(q[1] == "kw" for q in ps):
        ps = [q for q in ps if not (q[1] == "st" and q[0] == "")]
      elif not any(q[1] == "st" for q in ps):
        i = min(j for j, q in enumerate(ps) if q[1] == "kw")
        ps.insert(i, ("", "st", None))
      # a default may not precede a non-default positional parameter
      seen = False
      fixed = []
      for (pn, pk, pd) in ps:
        if pk in ("p", "po"):
          if pd is not None:
            seen = True
          elif seen:
            pd = "..."
        fixed.append((pn, pk, "..." if pd is not None else None))
      ps = fixed
      anns = {}
      for i, (pn, pk, _) in enumerate(ps):
        if pn and pn not in ("self", "cls") and rng.random() < 0.65:
          anns[i] = stub_type(rng, prog, classes=classes)
      ret = stub_type(rng, prog, classes=classes) if rng.random() < 0.85 else None
      if kind:
        emit(path, "@" + kind)
      emit(path, "def %s(%s)%s: ..." % (name, render_params(ps, anns), " -> " + ret if ret else ""))
      if rng.random() < 0.05:  # an overload-like second definition
        emit(path, "def %s(%s) -> %s: ..." % (name, render_params(ps, {}), stub_type(rng, prog, classes=classes)))
    elif d[0] == "var":
      _, path, name = d
      if "<locals>" in path:
        continue
      t = stub_type(rng, prog, variable=True, classes=classes)
      emit(path, "%s: %s%s" % (name, t, " = ..." if rng.random() < 0.2 else ""))
    else:
      _, path, name = d
      tree.setdefault(tuple(path + [name]), [])
  # extra definitions
  if rng.random() < 0.2:
    emit([], "def extra_fn(a: int) -> %s: ..." % stub_type(rng, prog, classes=classes))
  if rng.random() < 0.2:
    emit([], "extra_var: %s" % stub_type(rng, prog, classes=classes))
  if rng.random() < 0.03:
    tree[("Extra",)] = ["q: %s" % stub_type(rng, prog), "def m(self) -> int: ..."]
  generic = set()
  for c in list(tree):
    if len(c) == 1 and rng.random() < 0.02:
      generic.add(c)
  unused_tv = rng.random() < 0.1

  def render(path, indent):
    out = []
    pad = "    " * indent
    for l in tree.get(tuple(path), []):
      out.append(pad + l)
    for c in [k for k in tree if len(k) == len(path) + 1 and list(k[:-1]) == list(path)]:
      out.append("%sclass %s%s:" % (pad, c[-1], "(Generic[T])" if c in generic else ""))
      sub = render(list(c), indent + 1)
      out += sub if sub else [pad + "    ..."]
    return out
  body = render([], 0)
  text = "\n".join(body)
  hdr = []
  if "typing." in text:
    hdr.append("import typing")
  names = [n for n in ["Any", "Never", "List", "Optional", "Literal", "Callable", "Type", "Dict", "Generic"]
           if (n + "[") in text or (" " + n) in text or ("[" + n) in text]
  uses_t = any(tok in text for tok in [": T", "> T", "[T]"])
  if uses_t or unused_tv or generic:
    names.append("TypeVar")
  if rng.random() < 0.15:
    names.append("Union")
  if names:
    hdr.append("from typing import " + ", ".join(sorted(set(names))))
  if uses_t or unused_tv or generic:
    hdr.append("T = TypeVar('T')")
  if unused_tv:
    hdr.append("U = TypeVar('U')")
  return "\n".join(hdr + body) + "\n"


def stub_has_dotted_any(pyi_src):
  """region of the `typing.Any` finding: some return / variable annotation of the stub is a dotted
  name ending in Any/Never (the pre-filter only recognises the bare names)"""
  for n in ast.walk(ast.parse(pyi_src)):
    a = None
    if isinstance(n, (ast.FunctionDef, ast.AsyncFunctionDef)):
      a = n.returns
    elif isinstance(n, ast.AnnAssign):
      a = n.annotation
    if isinstance(a, ast.Attribute) and a.attr in ("Any", "Never"):
      return True
  return False
