"""Shared machinery for the /verif checks (see DESIGN.md §2).

Stages: prepare -> P (lake build + axiom audit) -> K (correspondence) -> W (witnesses)
-> S (failing-input search, only if P or K broke).
"""
from __future__ import annotations

import fcntl
import hashlib
import importlib.machinery
import importlib.util
import json
import os
import random
import re
import subprocess
import sys
import time

VERIF = os.path.dirname(os.path.dirname(os.path.abspath(__file__)))
REPO = os.environ.get("PYTYPE_REPO", "/repo")
# VERIF_LEAN_DIR: a private copy of lean/ (sources + .lake) for runs against another tree (harness/seeded.py), so that
# their regenerated tables and rebuilt proofs never touch the workspace the registered checks use
LEAN_DIR = os.environ.get("VERIF_LEAN_DIR") or os.path.join(VERIF, "lean")
BUILD = os.path.join(VERIF, "build")
EVIDENCE = os.path.join(VERIF, "evidence")
REPLAY = os.path.join(BUILD, "replay")
PY = "/venv/bin/python"
ALLOWED_AXIOMS = {"propext", "Classical.choice", "Quot.sound"}
FORBIDDEN = re.compile(
    r"\b(sorry|admit|native_decide|bv_decide|implemented_by|unsafe)\b|^\s*axiom\s|maxHeartbeats\s+0\b"
)

os.makedirs(BUILD, exist_ok=True)
os.makedirs(EVIDENCE, exist_ok=True)
os.makedirs(REPLAY, exist_ok=True)


class Timeout(Exception):
  pass


def seed() -> int:
  try:
    return int(os.environ.get("VERIF_SEED", "0"))
  except ValueError:
    return 0


def tier(default="quick") -> str:
  t = os.environ.get("VERIF_TIER", default)
  return t if t in ("quick", "thorough") else default


# ----------------------------------------------------------------------------
# building the real C++ extension out of tree
# ----------------------------------------------------------------------------
_EXT_SOURCES = ["cfg", "cfg_logging", "pylogging", "reachable", "solver", "typegraph"]


def _ext_hash() -> str:
  h = hashlib.sha256()
  d = os.path.join(REPO, "pytype", "typegraph")
  for f in sorted(os.listdir(d)):
    if f.endswith((".cc", ".h")) and "_test" not in f:
      h.update(f.encode())
      with open(os.path.join(d, f), "rb") as fh:
        h.update(fh.read())
  return h.hexdigest()[:16]


def ensure_ext() -> str:
  """Builds pytype.typegraph.cfg from /repo's current sources; returns the .so path."""
  key = _ext_hash()
  out = os.path.join(BUILD, "ext", key)
  suffix = subprocess.check_output(
      [PY, "-c", "import sysconfig;print(sysconfig.get_config_var('EXT_SUFFIX'))"],
      text=True).strip()
  so = os.path.join(out, "cfg" + suffix)
  if os.path.exists(so):
    return so
  os.makedirs(os.path.join(BUILD, "ext"), exist_ok=True)
  with open(os.path.join(BUILD, "ext", ".lock"), "w") as lk:
    fcntl.flock(lk, fcntl.LOCK_EX)
    if os.path.exists(so):
      return so
    tmp = out + ".tmp%d" % os.getpid()
    os.makedirs(tmp, exist_ok=True)
    pyinc = subprocess.check_output(
        [PY, "-c", "import sysconfig;print(sysconfig.get_paths()['include'])"], text=True).strip()
    pbinc = subprocess.check_output(
        [PY, "-c", "import pybind11;print(pybind11.get_include())"], text=True).strip()
    procs = []
    for f in _EXT_SOURCES:
      cmd = ["g++", "-std=c++20", "-O1", "-fPIC", "-fvisibility=hidden", "-w",
             "-I" + pyinc, "-I" + pbinc, "-I" + REPO, "-I" + os.path.join(REPO, "pytype/typegraph"),
             "-c", os.path.join(REPO, "pytype/typegraph", f + ".cc"), "-o", os.path.join(tmp, f + ".o")]
      procs.append((f, subprocess.Popen(cmd, stdout=subprocess.PIPE, stderr=subprocess.STDOUT, text=True)))
    for f, p in procs:
      o, _ = p.communicate()
      if p.returncode != 0:
        raise RuntimeError("ext build failed for %s.cc:\n%s" % (f, o[-3000:]))
    subprocess.check_call(["g++", "-shared"] + [os.path.join(tmp, f + ".o") for f in _EXT_SOURCES]
                          + ["-o", os.path.join(tmp, "cfg" + suffix)])
    for f in _EXT_SOURCES:
      os.unlink(os.path.join(tmp, f + ".o"))
    if os.path.exists(out):
      subprocess.call(["rm", "-rf", out])
    os.rename(tmp, out)
    # drop stale builds (keep disk small): only ones untouched for > 3 h, so concurrent checks on
    # other trees (PYTYPE_REPO) never lose theirs
    now = time.time()
    for d in os.listdir(os.path.join(BUILD, "ext")):
      p = os.path.join(BUILD, "ext", d)
      if os.path.isdir(p) and d != key and ".tmp" not in d and now - os.path.getmtime(p) > 3 * 3600:
        subprocess.call(["rm", "-rf", p])
  return so


def load_pytype(need_ext=True):
  """Makes `import pytype...` resolve to /repo's working tree with the freshly built ext."""
  if REPO not in sys.path:
    sys.path.insert(0, REPO)
  if not need_ext:
    return None
  if "pytype.typegraph.cfg" in sys.modules:
    return sys.modules["pytype.typegraph.cfg"]
  so = ensure_ext()
  import pytype.typegraph  # noqa
  loader = importlib.machinery.ExtensionFileLoader("pytype.typegraph.cfg", so)
  spec = importlib.util.spec_from_loader("pytype.typegraph.cfg", loader)
  mod = importlib.util.module_from_spec(spec)
  loader.exec_module(mod)
  sys.modules["pytype.typegraph.cfg"] = mod
  pytype.typegraph.cfg = mod
  return mod


# ----------------------------------------------------------------------------
# Lean side
# ----------------------------------------------------------------------------
def _lake(args, timeout=3000):
  lock = os.path.join(BUILD, ".lake.lock") if not os.environ.get("VERIF_LEAN_DIR") else LEAN_DIR.rstrip("/") + ".lock"
  with open(lock, "w") as lk:
    fcntl.flock(lk, fcntl.LOCK_EX)
    return subprocess.run(["lake"] + args, cwd=LEAN_DIR, stdout=subprocess.PIPE,
                          stderr=subprocess.STDOUT, text=True, timeout=timeout)


def lake_build(targets):
  r = _lake(["build"] + list(targets))
  return r.returncode == 0, r.stdout


def scan_forbidden(paths):
  """Text scan for sorry/admit/axiom/native_decide/... outside comments."""
  hits = []
  for p in paths:
    try:
      src = open(p).read()
    except OSError:
      continue
    # strip block comments (non-nested approximation, then nested by iteration) and line comments
    prev = None
    while prev != src:
      prev = src
      src = re.sub(r"/-(?:(?!/-|-/).)*?-/", lambda m: "\n" * m.group(0).count("\n"), src, flags=re.S)
    for i, line in enumerate(src.split("\n"), 1):
      line = re.sub(r"--.*$", "", line)
      line = re.sub(r'"(?:[^"\\]|\\.)*"', '""', line)
      if FORBIDDEN.search(line):
        hits.append("%s:%d: %s" % (os.path.relpath(p, VERIF), i, line.strip()))
  return hits


def lean_sources():
  out = []
  for root, _, files in os.walk(os.path.join(LEAN_DIR, "PytypeModel")):
    for f in files:
      if f.endswith(".lean"):
        out.append(os.path.join(root, f))
  return sorted(out)


def imports_closure(module):
  """Source files transitively imported (within PytypeModel) by `module`."""
  seen, todo = set(), [module]
  while todo:
    m = todo.pop()
    if m in seen or not m.startswith("PytypeModel"):
      continue
    seen.add(m)
    p = os.path.join(LEAN_DIR, m.replace(".", "/") + ".lean")
    try:
      for line in open(p):
        mm = re.match(r"\s*import\s+(\S+)", line)
        if mm:
          todo.append(mm.group(1))
    except OSError:
      pass
  return sorted(os.path.join(LEAN_DIR, m.replace(".", "/") + ".lean") for m in seen)


AUDIT_TMPL = """import Lean
import {mod}
open Lean Elab Command in
run_cmd do
  let env ← getEnv
  let some idx := env.getModuleIdx? `{mod} | throwError "module not found"
  let names := env.header.moduleData[idx.toNat]!.constNames
  for n in names do
    match env.find? n with
    | some (.thmInfo _) =>
      if n.isInternal then continue
      let axs ← collectAxioms n
      IO.println s!"THEOREM {{n}} AXIOMS {{",".intercalate (axs.toList.map toString)}}"
    | _ => pure ()
"""


def prove(prop_id, required, extra_targets=()):
  """Stage P.  Returns dict(ok, obligations, discharged, failures, log)."""
  mod = "PytypeModel.Props." + prop_id
  res = {"ok": False, "obligations": len(required), "discharged": 0, "failures": [],
         "theorems": {}, "checker_cmd": "lake build %s && lake env lean <audit of %s> (#print axioms per theorem)" % (mod, mod)}
  ok, log = lake_build([mod] + list(extra_targets))
  if not ok:
    res["failures"].append("lake build %s failed:\n%s" % (mod, log[-4000:]))
    return res
  hits = scan_forbidden(imports_closure(mod))
  if hits:
    res["failures"].append("forbidden constructs: " + "; ".join(hits[:10]))
    return res
  os.makedirs(os.path.join(BUILD, "audit"), exist_ok=True)
  af = os.path.join(BUILD, "audit", "Audit_%s_%d.lean" % (prop_id, os.getpid()))
  with open(af, "w") as fh:
    fh.write(AUDIT_TMPL.format(mod=mod))
  r = subprocess.run(["lake", "env", "lean", af], cwd=LEAN_DIR, stdout=subprocess.PIPE,
                     stderr=subprocess.STDOUT, text=True)
  os.unlink(af)
  thms = {}
  for line in r.stdout.splitlines():
    m = re.match(r"THEOREM (\S+) AXIOMS (.*)$", line)
    if m:
      thms[m.group(1)] = [a for a in m.group(2).split(",") if a]
  if r.returncode != 0:
    res["failures"].append("audit failed: " + r.stdout[-2000:])
    return res
  res["theorems"] = thms
  for name in required:
    full = mod + "." + name
    if full not in thms:
      res["failures"].append("theorem %s missing" % full)
    elif not set(thms[full]) <= ALLOWED_AXIOMS:
      res["failures"].append("theorem %s uses axioms %s" % (full, thms[full]))
    else:
      res["discharged"] += 1
  res["ok"] = not res["failures"]
  return res


def leanchecker(mods):
  r = subprocess.run(["lake", "env", "leanchecker"] + list(mods), cwd=LEAN_DIR,
                     stdout=subprocess.PIPE, stderr=subprocess.STDOUT, text=True)
  return r.returncode == 0, r.stdout[-2000:]


class Driver:
  """Compiled Lean model behind the line protocol."""

  def __init__(self, exe):
    self.path = os.path.join(LEAN_DIR, ".lake", "build", "bin", exe)
    if not os.path.exists(self.path):
      ok, log = lake_build([exe])
      if not ok:
        raise RuntimeError("cannot build driver %s:\n%s" % (exe, log[-3000:]))

  def batch(self, lines, timeout=1200):
    """Feeds all lines, returns output lines."""
    data = "\n".join(lines) + "\n"
    r = subprocess.run([self.path], input=data, stdout=subprocess.PIPE, stderr=subprocess.PIPE,
                       text=True, timeout=timeout)
    if r.returncode != 0:
      raise RuntimeError("driver %s failed: %s" % (self.path, r.stderr[-2000:]))
    return r.stdout.split("\n")[:-1] if r.stdout.endswith("\n") else r.stdout.split("\n")


def ensure_driver(exe):
  ok, log = lake_build([exe])
  if not ok:
    raise RuntimeError("cannot build driver %s:\n%s" % (exe, log[-3000:]))
  return Driver(exe)


# ----------------------------------------------------------------------------
# known findings, evidence, result protocol
# ----------------------------------------------------------------------------
def known_findings(prop_id):
  p = os.path.join(VERIF, "known_findings.json")
  try:
    data = json.load(open(p))
  except OSError:
    return [], []
  known = [e for e in data.get("known", []) if e["property"] == prop_id]
  fixed = [e for e in data.get("fixed", []) if e["property"] == prop_id]
  return known, fixed


class Result:
  """Collects what a run covered and decides exit status."""

  def __init__(self, prop_id, level="proof"):
    self.prop = prop_id
    self.level = level
    self.t0 = time.time()
    self.cov = {"obligations": 0, "discharged": 0, "checker_cmd": "", "trusted_base": [],
                "evaluations": 0, "distinct_nontrivial": 0, "rule": "", "samples": []}
    self.assumptions = []
    self.violations = []   # (replay path, text)
    self.known_lines = []
    self.broken = []       # P/K breaks (strings)

  def add_samples(self, xs, limit=5):
    for x in xs:
      if len(self.cov["samples"]) < limit:
        self.cov["samples"].append(x)

  def write_replay(self, name, payload):
    p = os.path.join(REPLAY, "%s-%s-%d.json" % (self.prop, name, seed()))
    with open(p, "w") as fh:
      json.dump(payload, fh, indent=1, sort_keys=True, default=str)
    return p

  def violation(self, name, payload, no_input=False):
    p = self.write_replay(name, payload)
    self.violations.append((p, no_input))

  def finish(self):
    ev = {
        "property_id": self.prop, "tier": tier(), "seed": seed(), "level": self.level,
        "coverage": self.cov, "assumptions": self.assumptions,
        "wall_s": round(time.time() - self.t0, 2), "violations": len(self.violations),
    }
    evdir = EVIDENCE
    if os.path.realpath(REPO) != "/repo":
      # a run against another tree (seeded change / mutation trial) must not overwrite the committed evidence
      evdir = os.path.join(BUILD, "evidence-other-tree")
      os.makedirs(evdir, exist_ok=True)
    with open(os.path.join(evdir, self.prop + ".json"), "w") as fh:
      json.dump(ev, fh, indent=1, sort_keys=True, default=str)
    for l in self.known_lines:
      print("KNOWN-FINDING: property=%s %s" % (self.prop, l))
    if self.violations:
      for p, no_input in self.violations:
        print("VIOLATION property=%s replay=%s%s" % (self.prop, p, " no-failing-input-found" if no_input else ""))
      return 1
    print("OK property=%s tier=%s seed=%d obligations=%d discharged=%d K-cases=%d wall=%.1fs" % (
        self.prop, tier(), seed(), self.cov["obligations"], self.cov["discharged"],
        self.cov["evaluations"], time.time() - self.t0))
    return 0


TRUSTED_BASE_COMMON = [
    "Lean 4.33 kernel; axioms limited to propext, Classical.choice, Quot.sound (audited per theorem via collectAxioms)",
    "the statements in lean/PytypeModel/Props and the Lean specifications they refer to",
    "the correspondence harness (sampling): outside the inputs explored the model/code tie is not checked",
]


def run_check(prop_id, required, correspond, witnesses=None, search=None, trusted=(), assumptions=(),
              extra_targets=(), thorough_modules=None, prepare=None):
  """Generic P -> K -> W -> S protocol.

  correspond(res, rng, tier) -> list of disagreement dicts (empty = model and code agree).
  witnesses(res) -> handles known/fixed findings itself (adds known_lines / violations).
  search(res, rng, disagreements, pfail) -> list of failing-input dicts found on the real code.
  """
  res = Result(prop_id)
  rng = random.Random(seed() * 1000003 + 17)
  res.cov["trusted_base"] = TRUSTED_BASE_COMMON + list(trusted)
  res.assumptions = list(assumptions)
  if prepare:
    prepare()   # translators: regenerate Generated/*.lean from REPO before anything is built
  p = prove(prop_id, required, extra_targets)
  res.cov["obligations"] = p["obligations"]
  res.cov["discharged"] = p["discharged"]
  res.cov["checker_cmd"] = p["checker_cmd"]
  res.cov["theorems"] = sorted(p["theorems"].keys())
  res.cov["axioms_used"] = sorted({a for v in p["theorems"].values() for a in v})
  pfail = list(p["failures"])
  if tier() == "thorough" and p["ok"]:
    mods = thorough_modules or ["PytypeModel.Props." + prop_id]
    ok, log = leanchecker(mods)
    res.cov["leanchecker"] = "ok" if ok else log
    if not ok:
      pfail.append("leanchecker rejected: " + log)
  disagreements = []
  try:
    disagreements = correspond(res, rng, tier()) or []
  except Timeout:
    raise
  except Exception as e:  # pylint: disable=broad-except
    # the correspondence stage itself could not run against this tree (an interface of the real code changed under it, a
    # driver died, ...): the tie between model and code is broken, which is reported like any other disagreement — never
    # as a bare traceback — and the failing-input search still gets its turn
    import traceback  # pylint: disable=g-import-not-at-top
    disagreements = [{"kind": "correspondence-stage-raised", "exception": repr(e)[:400],
                      "trace": traceback.format_exc()[-1800:]}]
  res.cov["correspondence_disagreements"] = len(disagreements)
  if witnesses:
    try:
      witnesses(res)
    except Timeout:
      raise
    except Exception as e:  # pylint: disable=broad-except
      import traceback  # pylint: disable=g-import-not-at-top
      disagreements = disagreements + [{"kind": "witness-stage-raised", "exception": repr(e)[:400],
                                        "trace": traceback.format_exc()[-1800:]}]
  if pfail or disagreements:
    found = []
    if search:
      try:
        found = search(res, rng, disagreements, pfail) or []
      except Timeout:
        raise
      except Exception as e:  # pylint: disable=broad-except
        res.cov["search_error"] = repr(e)[:300]
    res.cov["search_failing_inputs"] = len(found)
    if found:
      for i, f in enumerate(found[:3]):
        res.violation("fail%d" % i, {"property": prop_id, "kind": "failing-input", "input": f,
                                     "proof_failures": pfail, "disagreements": disagreements[:5]})
    else:
      res.violation("broken", {"property": prop_id, "kind": "proof-or-correspondence-broken",
                               "proof_failures": pfail, "disagreements": disagreements[:20],
                               "note": "no failing input found on the real code within the search budget"},
                    no_input=True)
  return res.finish()


def ddmin(items, fails, budget_s=20.0, keep=lambda x: False):
  """Budgeted delta debugging: removes chunks of `items` while `fails(items)` stays true.
  Items for which keep(item) is true are never removed."""
  t0 = time.time()
  cur = list(items)

  def ok(c):
    try:
      return bool(fails(c))
    except Exception:
      return False
  chunk = max(1, len(cur) // 2)
  while chunk >= 1 and time.time() - t0 < budget_s:
    i = 0
    progressed = False
    while i < len(cur) and time.time() - t0 < budget_s:
      seg = [x for x in cur[i:i + chunk] if not keep(x)]
      if not seg:
        i += chunk
        continue
      cand = cur[:i] + [x for x in cur[i:i + chunk] if keep(x)] + cur[i + chunk:]
      if len(cand) < len(cur) and ok(cand):
        cur = cand
        progressed = True
      else:
        i += chunk
    if chunk == 1 and not progressed:
      break
    chunk = max(1, chunk // 2) if chunk > 1 else (1 if progressed else 0)
  return cur
