"""C14 — errors on fully known code are real, and plain type mistakes are caught (DESIGN.md §5 C14).

Fragment F14: one straight-line statement per line whose operands are builtin literals / names bound
to literals / container displays / builtin functions (the value classes of translate/builtin_ops.py)
or fresh instances of generated plain classes with arbitrary dunder subsets, under binary + - * /,
unary minus, subscripting, attribute access, method call, call.

prepare : translate/builtin_ops.py (Slots.lean, BuiltinOps.lean; real pytype's view is cached).
P       : Props/C14 (lake build + axiom audit).
K       : (a) the compiled table is complete (`rowcheck`);
          (b) builtin rows: statements with *fresh random values* of the row's classes through real
              pytype (error names must equal the table's verdict for the row) and CPython (outcome must
              fall on the same side as the table's outcome set);
          (c) user classes: exhaustive 2-class {__op__, __rop__} x {absent, value, NotImplemented}
              configurations + seeded random hierarchies (single/multiple inheritance, overriding,
              reflected, instance attributes shadowing class attributes, mixed user/builtin operands):
              real pytype's error names AND inferred result type per line vs the Lean dispatch model
              (driver), and real CPython's outcome per statement vs the model's CPython side.
W       : every known C14 row is replayed on real pytype + CPython with the property's oracle.
S       : per-statement exec under CPython vs real pytype's verdict (clause 1 / clause 2), on the
          disagreeing inputs, all table rows, random user statements and type-probe statements derived
          from them; failing inputs are shrunk (class bodies) with ddmin.
"""
import re
import sys
import time
import warnings

from harness import common

sys.path.insert(0, common.VERIF)
from translate import builtin_ops as B  # noqa: E402

REQUIRED = ["slots_agree", "builtin_table_agrees", "known_rows_confirmed", "builtin_table_agrees_not_full",
            "no_false_error", "no_false_error_user", "no_false_error_not_full", "catches_builtin",
            "user_unary_sub_call_exact", "attr_missing", "user_same_type_radd_missed",
            "user_missed_only_same_type", "user_missed_notimpl"]

OPS = [("add", "+", "__add__", "__radd__"), ("sub", "-", "__sub__", "__rsub__"),
       ("mul", "*", "__mul__", "__rmul__"), ("div", "/", "__truediv__", "__rtruediv__")]
OTHER_DUNDERS = ["__getitem__", "__neg__", "__call__"]
TAG_LIT = ["0", '""', "0.5", 'b""']
TAG_TYPE = ["int", "str", "float", "bytes"]
ATTR_POOL = ["k0", "k1", "m0", "m1", "i0", "i1", "zz"]
ERRNAME = {"unsupported": ["unsupported-operands"], "attribute": ["attribute-error"],
           "notcallable": ["not-callable"]}
PER_MODULE = 80


# ----------------------------------------------------------------------------
# random values of a builtin value class
# ----------------------------------------------------------------------------
def rand_value(rng, cls):
  def rint():
    v = rng.choice([0, 1, 2, 3, 5, 7, 12, 40, -1, -3])
    return "(%d)" % v if v < 0 else str(v)

  def rstr():
    return '"%s"' % "".join(rng.choice("abxyz") for _ in range(rng.randrange(0, 4)))
  if cls == "int":
    return rng.choice(["n_int", rint(), rint()])
  if cls == "bool":
    return rng.choice(["n_bool", "True", "False"])
  if cls == "float":
    return rng.choice(["n_float", "0.0", "2.5", "(-1.25)", "1e3"])
  if cls == "complex":
    return rng.choice(["n_complex", "2j", "(1+3j)", "0j"])
  if cls == "str":
    return rng.choice(["n_str", rstr(), rstr()])
  if cls == "bytes":
    return rng.choice(["n_bytes", 'b"q"', 'b""', 'b"hello"'])
  if cls == "none":
    return "None"
  if cls == "list_int":
    return "[%s]" % ", ".join(rint() for _ in range(rng.randrange(1, 4)))
  if cls == "list_str":
    return "[%s]" % ", ".join(rstr() for _ in range(rng.randrange(1, 4)))
  if cls == "list_empty":
    return "[]"
  if cls == "tuple_int":
    n = rng.randrange(1, 4)
    return rng.choice(["n_tint", "(%s%s)" % (", ".join(rint() for _ in range(n)), "," if n == 1 else "")])
  if cls == "tuple_str":
    n = rng.randrange(1, 3)
    return rng.choice(["n_tstr", "(%s%s)" % (", ".join(rstr() for _ in range(n)), "," if n == 1 else "")])
  if cls == "tuple_empty":
    return rng.choice(["n_tempty", "()"])
  if cls == "dict_str_int":
    ks = rng.sample(["a", "b", "k", "zz", ""], rng.randrange(1, 4))
    return "{%s}" % ", ".join('"%s": %s' % (k, rint()) for k in ks)
  if cls == "dict_int_str":
    ks = rng.sample([0, 1, 2, 7], rng.randrange(1, 4))
    return "{%s}" % ", ".join("%d: %s" % (k, rstr()) for k in ks)
  if cls == "dict_empty":
    return "{}"
  if cls == "set_int":
    return "{%s}" % ", ".join(str(v) for v in rng.sample([0, 1, 2, 5, 9], rng.randrange(1, 4)))
  if cls == "set_str":
    return "{%s}" % ", ".join('"%s"' % v for v in rng.sample(["a", "b", "xy", ""], rng.randrange(1, 3)))
  if cls == "func":
    return rng.choice(["len", "abs"])
  if cls == "user":
    return "U()"
  if cls == "useri":
    return "UI()"
  raise ValueError(cls)


# ----------------------------------------------------------------------------
# user-class hierarchies
# ----------------------------------------------------------------------------
class Group:
  """One hierarchy: classes (name, bases, members, init) + MRO data computed by CPython."""

  def __init__(self, prefix, classes):
    self.prefix = prefix
    self.classes = classes            # list of dict(bases=[idx], members=[(name, kind)], init=None|[names])
    self.mros = None

  def cname(self, i):
    return "%sC%d" % (self.prefix, i)

  def source(self):
    out = []
    for i, c in enumerate(self.classes):
      bases = ", ".join(self.cname(b) for b in c["bases"])
      out.append("class %s%s:" % (self.cname(i), "(%s)" % bases if bases else ""))
      body = []
      for name, kind in c["members"]:
        if kind[0] == "d":
          body.append("  %s = %s" % (name, TAG_LIT[int(kind[1:])]))
        else:
          ret = "NotImplemented" if kind == "mN" else TAG_LIT[int(kind[1:])]
          args = "self" if name in ("__neg__", "__call__") or not name.startswith("__") else "self, o"
          body.append("  def %s(%s):\n    return %s" % (name, args, ret))
      if c["init"] is not None:
        body.append("  def __init__(self):" + ("\n    pass" if not c["init"] else ""))
        for n in c["init"]:
          body.append("    self.%s = 0" % n)
      if not body:
        body.append("  pass")
      out.extend(body)
    return "\n".join(out) + "\n"

  def compute_mros(self):
    ns = {}
    exec(compile(self.source(), "<group>", "exec"), ns)  # raises TypeError on inconsistent bases
    idx = {ns[self.cname(i)]: i for i in range(len(self.classes))}
    self.mros = [[idx[k] for k in ns[self.cname(i)].__mro__ if k in idx] for i in range(len(self.classes))]
    return self

  def defines(self, c, name):
    return any(n == name for n, _ in self.classes[c]["members"])

  def finds(self, c, name):
    return any(self.defines(d, name) for d in self.mros[c])

  def overrides(self, sub, sup, name):
    """vm_utils._overrides on the generated data (only used to measure the input distribution)."""
    if sup not in self.mros[sub]:
      return False
    for d in self.mros[sub]:
      if d == sup:
        return False
      if self.defines(d, name):
        return True
    return False

  def driver_line(self):
    parts = []
    for i, c in enumerate(self.classes):
      mem = ",".join("%s:%s" % (n, k) for n, k in c["members"]) or "."
      ini = "-" if c["init"] is None else (",".join(c["init"]) or ".")
      parts.append("%s|%s|%s" % (",".join(str(x) for x in self.mros[i]), mem, ini))
    return "H " + ";".join(parts)


def rand_group(rng, prefix):
  while True:
    n = rng.randrange(2, 7)
    classes = []
    for i in range(n):
      nb = 0 if i == 0 else rng.choice([0, 1, 1, 1, 2])
      bases = rng.sample(range(i), min(nb, i))
      members = []
      dens = rng.choice([0.15, 0.3, 0.5])
      for _, _, dn, rn in OPS:
        for nm in (dn, rn):
          if rng.random() < dens:
            members.append((nm, "mN" if rng.random() < 0.25 else "m%d" % rng.randrange(4)))
      for nm in OTHER_DUNDERS:
        if rng.random() < 0.3:
          members.append((nm, "mN" if rng.random() < 0.15 else "m%d" % rng.randrange(4)))
      for nm in ("k0", "k1"):
        if rng.random() < 0.3:
          members.append((nm, "d%d" % rng.randrange(4)))
      for nm in ("m0", "m1"):
        if rng.random() < 0.3:
          members.append((nm, "m%d" % rng.randrange(4)))
      init = None
      if rng.random() < 0.35:
        init = [a for a in ("i0", "i1", "k0", "m0") if rng.random() < 0.4]
      classes.append({"bases": bases, "members": members, "init": init})
    g = Group(prefix, classes)
    try:
      return g.compute_mros()
    except TypeError:
      continue


def small_groups():
  """Exhaustive: classes A, B with B(A) or unrelated; each of A.__add__, A.__radd__, B.__add__,
  B.__radd__ in {absent, value, NotImplemented} (distinct value tags to tell the methods apart)."""
  out = []
  kinds = [None, "v", "N"]
  g = 0
  for derived in (False, True):
    for a1 in kinds:
      for a2 in kinds:
        for b1 in kinds:
          for b2 in kinds:
            def mem(k, name, tag):
              return [] if k is None else [(name, "mN" if k == "N" else "m%d" % tag)]
            A = {"bases": [], "members": mem(a1, "__add__", 0) + mem(a2, "__radd__", 1), "init": None}
            Bc = {"bases": [0] if derived else [], "members": mem(b1, "__add__", 2) + mem(b2, "__radd__", 3),
                  "init": None}
            out.append(Group("S%d" % g, [A, Bc]).compute_mros())
            g += 1
  return out


def operand_text(g, opnd, rng):
  """opnd: ('u', c) | ('b', class name) -> (python text, driver token)."""
  if opnd[0] == "u":
    return "%s()" % g.cname(opnd[1]), "u%d" % opnd[1]
  return rand_value(rng, opnd[1]), "b%d" % B.CLASS_NAMES.index(opnd[1])


BUILTIN_MIX = [c for c in B.CLASS_NAMES if c not in B.USER_CLASSES]


def user_statements(g, rng, count, exhaustive_pairs=False):
  """(kind, python expr, driver stmt) for one group."""
  n = len(g.classes)
  stmts = []
  if exhaustive_pairs:
    for a in range(n):
      for b in range(n):
        stmts.append(("bin", "%s() + %s()" % (g.cname(a), g.cname(b)), "bin u%d add u%d" % (a, b)))
    return stmts
  for _ in range(count):
    r = rng.random()
    if r < 0.45:
      x, y = ("u", rng.randrange(n)), ("u", rng.randrange(n))
      m = rng.random()
      if m < 0.2:
        x = ("b", rng.choice(BUILTIN_MIX))
      elif m < 0.4:
        y = ("b", rng.choice(BUILTIN_MIX))
      op = rng.choice(OPS)
      xt, xd = operand_text(g, x, rng)
      yt, yd = operand_text(g, y, rng)
      stmts.append(("bin", "%s %s %s" % (B.paren(xt), op[1], B.paren(yt)), "bin %s %s %s" % (xd, op[0], yd)))
    elif r < 0.6:
      x, y = ("u", rng.randrange(n)), rng.choice([("u", rng.randrange(n)), ("b", rng.choice(BUILTIN_MIX))])
      if rng.random() < 0.3:
        x, y = ("b", rng.choice(BUILTIN_MIX)), ("u", rng.randrange(n))
      xt, xd = operand_text(g, x, rng)
      yt, yd = operand_text(g, y, rng)
      stmts.append(("sub", "%s[%s]" % (B.paren(xt), yt), "sub %s %s" % (xd, yd)))
    elif r < 0.68:
      c = rng.randrange(n)
      stmts.append(("neg", "-%s()" % g.cname(c), "neg u%d" % c))
    elif r < 0.76:
      c = rng.randrange(n)
      stmts.append(("call", "%s()()" % g.cname(c), "call u%d" % c))
    elif r < 0.88:
      c, a = rng.randrange(n), rng.choice(ATTR_POOL)
      stmts.append(("attr", "%s().%s" % (g.cname(c), a), "attrU %d %s" % (c, a)))
    else:
      c, a = rng.randrange(n), rng.choice(ATTR_POOL)
      stmts.append(("mcall", "%s().%s()" % (g.cname(c), a), "mcallU %d %s" % (c, a)))
  return stmts


# ----------------------------------------------------------------------------
# running real pytype / CPython on modules of statements
# ----------------------------------------------------------------------------
def _run_module(args):
  """args = (preamble, [stmt]); returns per-statement (error names, inferred type of `v<i>` or None)."""
  return B.run_module((args[0], args[1], True))


def run_pytype(modules):
  """modules: list of (preamble, [stmt]) -> list of per-module ([(errors, type)], stray)."""
  return B.run_modules([(p, s, True) for p, s in modules])


def cpython_run(pre, stmt):
  """Outcome class + result type name of `v = stmt` executed in a fresh namespace."""
  ns = {}
  with warnings.catch_warnings():
    warnings.simplefilter("ignore")
    try:
      exec(compile(pre, "<pre>", "exec"), ns)
      code = compile("v = " + stmt, "<stmt>", "exec")
    except BaseException:
      return "EX", None
    try:
      exec(code, ns)
    except TypeError:
      return "TE", None
    except AttributeError:
      return "AE", None
    except BaseException:
      return "EX", None
  v = ns.get("v")
  return "OK", ("_NotImplementedType" if v is NotImplemented else type(v).__name__)


def key_of_driver_row(mrow):
  """`kind,aux,l,r` as printed by the driver -> row key of translate/builtin_ops (or None)."""
  if mrow == "-":
    return None
  rk = [int(x) for x in mrow.split(",")]
  kind = B.KINDS[rk[0]]
  aux = B.ATTRS[rk[1]] if kind in ("attr", "mcall") else (B.FUNCS[rk[1]] if kind == "fcall" else "")
  two = kind.startswith("bin") or kind == "sub"
  return "%s|%s|%s|%s" % (kind, aux, B.CLASS_NAMES[rk[2]], B.CLASS_NAMES[rk[3]] if two else "")


def side(o):
  return "bad" if o in ("TE", "AE") else "good"


# ----------------------------------------------------------------------------
# sequence family: straight-line programs whose statements depend on earlier ones (state, caches, call depth)
# ----------------------------------------------------------------------------
def _chain_class(name, depth):
  """class whose __init__ reaches its attribute assignment through `depth` nested helper calls"""
  L = ["class %s:" % name, "  def __init__(self):"]
  if depth == 0:
    L.append("    self.val = 1")
  else:
    L.append("    self._s1()")
    for d in range(1, depth + 1):
      L.append("  def _s%d(self):" % d)
      L.append("    self.val = 1" if d == depth else "    self._s%d()" % (d + 1))
  L += ["  def get(self):", "    return self.val"]
  return "\n".join(L) + "\n"


def sequence_family():
  """[(preamble, [statement lines])]; every statement is `name = expr` or an expression statement, executed in
  order in ONE namespace.  Families: (a) ==-equal tuple/constant literals of different element types used later;
  (b) instances whose attributes are set 0-3 helper calls below __init__; (c) attribute rebound through an outer
  object between two identical method calls; (d) keyword-argument calls into user code whose body makes calls; (e)
  cooperating __init__ methods under multiple inheritance; (f) the other data-model protocols on user classes.
  (Containers mutated between reads are not included: their element
  types become unions and pytype, by design, only reports when every member fails.)"""
  out = []
  # (a)
  pairs = [("(1, 2)", "(1.0, 2.0)"), ("(1, 'a')", "(1.0, 'a')"), ("(True, 0)", "(1, 0)"), ("(0,)", "(False,)"),
           ("(1, (2, 3))", "(1, (2.0, 3))"), ("1", "1.0"), ("0", "False"), ("frozenset({1})", "frozenset({1.0})")]
  probes = ["{x}[0].hex()", "{x}[0].bit_length()", "{x}[0].real", "{x}[0].is_integer()", "{x}[0] + 'a'", "-{x}[0]",
            "{x}[-1].upper()", "{x}[0].conjugate()"]
  for a, b in pairs:
    for first, second in ((a, b), (b, a)):
      st = ["p = %s" % first, "q = %s" % second]
      for pr in probes:
        if not first.startswith("(") and "[" in pr:
          pr = pr.replace("{x}[0]", "{x}").replace("{x}[-1]", "{x}")
        st.append(pr.format(x="p"))
        st.append(pr.format(x="q"))
      out.append(("", st))
  # (b)
  for depth in range(0, 4):
    pre = _chain_class("Ch%d" % depth, depth)
    st = ["o = Ch%d()" % depth, "o.val", "o.get()", "o.nope", "o.nope_method()", "o.val.bit_length()", "o.val.upper()",
          "o.get() + 1", "o.get() + 'a'", "o()", "o[0]", "-o"]
    out.append((pre, st))
  # (c)
  pre = ("class In:\n  def __init__(self, v):\n    self.v = v\n"
         "class Out:\n  def __init__(self, i):\n    self.inner = i\n  def get(self):\n    return self.inner.v\n")
  for v1, v2, p1, p2 in (("1", "'s'", "+ 1", "+ 't'"), ("'s'", "1", "+ 't'", "+ 1"), ("1", "2.5", ".bit_length()", ".hex()"),
                         ("[1]", "(1,)", ".append(2)", ".count(1)")):
    st = ["i = In(%s)" % v1, "o = Out(i)", "o.get() %s" % p1, "o.get() %s" % p2, "o.inner.v = %s" % v2,
          "o.get() %s" % p1, "o.get() %s" % p2]
    # (not continued with `i.v = …` through the alias: on the unchanged tree the result of o.get() is then stale —
    # the call cache is keyed by o's own members — which is outside the fragment the property names)
    out.append((pre, st))
  # (d) keyword-argument calls into user functions / methods / __call__ whose bodies themselves make calls
  pre = ("def kf(v, w=0):\n  return len(str(v)) + abs(w)\n"
         "def kg(a, *, b='x'):\n  return b.join([str(a), repr(a)])\n"
         "class K:\n  def __init__(self, n=1):\n    self.n = abs(n)\n"
         "  def m(self, p, q=2):\n    return str(p) + ','.join([str(q)])\n"
         "  def __call__(self, n=0):\n    return len([n]) + int(float(n))\n"
         "  @staticmethod\n  def s(t, u=None):\n    return sorted([t], key=str)\n"
         "  @classmethod\n  def c(cls, t=0):\n    return cls(n=int(t))\n")
  st = ["kf(v=1)", "kf(1, w=2)", "kf(1, w=2) + 1", "kf(1, w=2) + 'a'", "kf(v=1).bit_length()", "kf(v=1).upper()",
        "kg(1, b='-')", "kg(a=1)", "kg(1, b='-').upper()", "kg(1, b='-').nope", "-kg(1, b='-')",
        "k = K(n=3)", "k.n", "k.m(1, q=2)", "k.m(p=1)", "k.m(1, q=2).upper()", "k.m(1, q=2).nope", "k.m(p=1, q=3) + 'z'",
        "k.m(p=1, q=3) + 1", "k(n=1)", "k(n=1).bit_length()", "k(n=1).upper()", "K.s(1, u=2)", "K.s(t=1)[0]",
        "K.s(t=1).append(2)", "K.s(t=1).nope()", "K.c(t=2)", "K.c(t=2).n", "K.c(t=2).m(1, q=2)", "K.c(t=2).nope",
        "kf(*[1], w=3)", "kf(**{'v': 1})", "k.m(*[1], **{'q': 2})"]
  out.append((pre, st))
  # (e) cooperating __init__ methods under multiple inheritance (diamond; mix-in in front of a plain class)
  pre = ("class Base:\n  def __init__(self):\n    self.base = 1\n"
         "class Left(Base):\n  def __init__(self):\n    super().__init__()\n    self.left = 'l'\n"
         "  def twice(self):\n    return self.left * 2\n"
         "class Right(Base):\n  def __init__(self):\n    super().__init__()\n    self.right = 'r'\n"
         "  def only_right(self):\n    return self.right\n"
         "class Both(Left, Right):\n  def __init__(self):\n    super().__init__()\n    self.both = 2.5\n"
         "  def hello(self):\n    return self.left + self.right\n"
         "class Mixin:\n  def __init__(self, *a):\n    super().__init__(*a)\n    self.mix = 1\n"
         "class Plain:\n  def __init__(self):\n    self.plain = {'k': 1}\n"
         "  def __getitem__(self, k):\n    return self.plain[k]\n"
         "class Mixed(Mixin, Plain):\n  pass\n"
         "class Three(Mixin, Left, Right):\n  def __init__(self):\n    super().__init__()\n    self.three = [3]\n")
  st = ["b = Both()", "b.base", "b.left", "b.right", "b.both", "b.nope", "b.right + 'x'", "b.right + 1", "b.right.upper()",
        "b.right.bit_length()", "b.only_right()", "b.only_right().upper()", "b.hello()", "b.twice()", "b.base.bit_length()",
        "b.left.bit_length()", "b.both.hex()", "b.both.upper()",
        "m = Mixed()", "m.mix", "m.plain", "m['k']", "m.plain.keys()", "m.nope", "-m", "m()", "m.mix.bit_length()",
        "m.plain.upper()",
        "t = Three()", "t.mix", "t.left", "t.right", "t.base", "t.three", "t.only_right()", "t.twice()", "t.right.upper()",
        "t.three.append(4)", "t.three.upper()", "t.nope",
        "l = Left()", "l.left", "l.base", "l.right", "r = Right()", "r.right", "r.left", "r.only_right() + 'x'"]
  out.append((pre, st))
  # (f) the other protocols of the data model on user classes that define / inherit / lack the dunder: reflected and
  # in-place addition, ==, `in`, len, unary + and ~, truth, iteration (list(), comprehension, unpacking, for), call,
  # subscript — every statement on fresh names (a statement that raises leaves pytype with Any for its target)
  pre = ("class P:\n  def __init__(self):\n    self.v = 1\n"
         "class A(P):\n  def __add__(self, o):\n    return 1\n  def __iadd__(self, o):\n    return 's'\n"
         "  def __contains__(self, x):\n    return True\n  def __len__(self):\n    return 3\n"
         "  def __iter__(self):\n    return iter([1])\n  def __pos__(self):\n    return 2.5\n"
         "  def __bool__(self):\n    return False\n  def __eq__(self, o):\n    return 'eq'\n"
         "class Bq(P):\n  def __radd__(self, o):\n    return b'b'\n  def __getitem__(self, i):\n    return [1, 2][i]\n"
         "  def __invert__(self):\n    return self\n  def __call__(self, x=1):\n    return (x,)\n"
         "class Cq(A):\n  pass\n")
  st = ["a = A()", "b = Bq()", "c = Cq()", "p = P()",
        "a + p", "p + a", "p + b", "b + p", "p + p", "a + a", "c + 1", "1 + c", "1 + b", "c + b", "b + c",
        "p == a", "a == p", "p != p", "(a == p).upper()", "(a == p).bit_length()",
        "1 in a", "1 in b", "1 in p", "1 not in c",
        "len(a)", "len(b)", "len(p)", "len(c)", "len(a).bit_length()", "len(a).upper()",
        "+a", "+b", "+p", "~b", "~a", "~p", "not a", "not p", "(+a).hex()", "(+a).upper()", "(~b).v", "(~b).nope",
        "list(a)", "list(b)", "list(p)", "[x for x in a]", "[x for x in p]", "x1, = a", "x2, x3 = b", "x4, = p",
        "a2 = A()", "a2 += 1", "a2.upper()", "a3 = A()", "a3 += 1", "a3.bit_length()", "p2 = P()", "p2 += 1",
        "c2 = Cq()", "c2 += 1", "c2.upper()", "c3 = Cq()", "c3 += 1", "c3.bit_length()",
        "b()", "b(2)[0].bit_length()", "b(2).upper()", "a()", "P()()", "b[0]", "b[0].bit_length()", "b[0].upper()",
        "a[0]", "P()[0]", "bool(a)", "bool(p)", "iter(a)", "iter(P())", "next(iter(a)).bit_length()", "sorted(a)",
        "sorted(P())", "(a + p).bit_length()", "(a + p).upper()", "(p + b).decode()", "(p + b).bit_length()",
        "for y1 in a: pass", "for y2 in b: pass", "for y3 in P(): pass"]
  out.append((pre, st))
  # (g) classes with attribute hooks: implicit special-method lookups go to the type, not through __getattribute__ /
  # __getattr__ — an operator, subscript or call the class has no slot for is a TypeError whatever the hooks return
  pre = ("class Hooked:\n  def __init__(self):\n    self.v = 1\n"
         "  def __getattribute__(self, name):\n    return object.__getattribute__(self, name)\n"
         "class HookedSub(Hooked):\n  def __add__(self, o):\n    return 's'\n  def __neg__(self):\n    return 2.5\n"
         "class Dyn:\n  def __init__(self):\n    self.v = 1\n  def __getattr__(self, name):\n    return 7\n")
  st = ["h = Hooked()", "s2 = HookedSub()", "d = Dyn()",
        "h + 1", "1 + h", "-h", "h[0]", "h()", "h * 2", "h.v", "h.v.bit_length()",
        "s2 + 1", "-s2", "1 + s2", "s2 - 1", "s2[0]", "s2()", "(s2 + 1).upper()", "(s2 + 1).bit_length()", "(-s2).hex()",
        "d + 1", "-d", "d[0]", "d()", "d.v", "d.anything", "d.v.bit_length()"]
  out.append((pre, st))
  return out


def sequence_cpython(pre, stmts):
  """per statement: 'OK' | 'TE' | 'AE' | 'EX', executing the statements in order in one namespace"""
  ns = {}
  outs = []
  with warnings.catch_warnings():
    warnings.simplefilter("ignore")
    exec(compile(pre, "<pre>", "exec"), ns)  # pylint: disable=exec-used
    for s_ in stmts:
      try:
        exec(compile(s_, "<stmt>", "exec"), ns)  # pylint: disable=exec-used
        outs.append("OK")
      except TypeError:
        outs.append("TE")
      except AttributeError:
        outs.append("AE")
      except BaseException:  # pylint: disable=broad-except
        outs.append("EX")
  return outs


ADVERTISED_ERRS = {"attribute-error", "unsupported-operands", "not-callable"}


def k_sequences(res, disagreements):
  """the property's own oracle on the sequence family (no model involved): clause 1 — a flagged statement raises
  TypeError/AttributeError under CPython; clause 2 — a statement that raises one of them through a missing
  attribute/method, an unsupported + - * / unary-minus or subscript, or a call of a non-callable is flagged."""
  fam = sequence_family()
  runs = B.run_modules([(pre, st, False) for pre, st in fam])
  n = flagged = raised = 0
  for (pre, st), (per, stray) in zip(fam, runs):
    outs = sequence_cpython(pre, st)
    if stray:
      disagreements.append({"case": "sequence-stray-error", "pre": pre, "stmts": st, "errors": stray})
    for i, ((errs, _), out) in enumerate(zip(per, outs)):
      n += 1
      flagged += bool(errs)
      raised += out in ("TE", "AE")
      if any(e.startswith("CRASH") for e in errs):
        disagreements.append({"case": "sequence-crash", "pre": pre, "stmts": st, "line": i, "errors": errs})
      elif errs and side(out) == "good":
        disagreements.append({"case": "sequence-clause1", "pre": pre, "stmts": st[:i + 1], "stmt": st[i], "pytype": errs,
                              "cpython": out})
      elif not errs and side(out) == "bad":
        disagreements.append({"case": "sequence-clause2", "pre": pre, "stmts": st[:i + 1], "stmt": st[i], "pytype": errs,
                              "cpython": out})
  res.cov["sequence_family"] = {"programs": len(fam), "statements": n, "flagged_by_pytype": flagged,
                                "raising_under_cpython": raised}
  return n


# ----------------------------------------------------------------------------
# K
# ----------------------------------------------------------------------------
def build_cases(rng, tier):
  """Returns (builtin cases, user groups with statements)."""
  rows = B.rows()
  if tier == "thorough":
    brs = list(rows) + [rng.choice(rows) for _ in range(600)]
    n_rand_groups, n_small = 42, None
  else:
    # every kind is represented; seeded sample of the rows
    brs = [rng.choice(rows) for _ in range(560)]
    n_rand_groups, n_small = 6, 40
  bcases = []
  for row in brs:
    kind, aux, l, r = row
    stmt = B.stmt_of(kind, aux, rand_value(rng, l), rand_value(rng, r) if r else "")
    bcases.append((row, stmt))
  small = small_groups()
  if n_small is not None:
    small = rng.sample(small, n_small)
  groups = []
  for g in small:
    groups.append((g, user_statements(g, rng, 0, exhaustive_pairs=True)))
  for i in range(n_rand_groups):
    g = rand_group(rng, "R%d" % i)
    groups.append((g, user_statements(g, rng, PER_MODULE)))
  return bcases, groups


def pack_user_modules(groups):
  """Packs groups into modules of about PER_MODULE statements: [(preamble, stmts, [(group, stmts, lo)])]."""
  mods, cur_pre, cur_st, cur_map = [], B.PREAMBLE, [], []
  for g, sts in groups:
    if cur_st and len(cur_st) + len(sts) > PER_MODULE:
      mods.append((cur_pre, cur_st, cur_map))
      cur_pre, cur_st, cur_map = B.PREAMBLE, [], []
    cur_map.append((g, sts, len(cur_st)))
    cur_pre += g.source()
    cur_st = cur_st + [s[1] for s in sts]
  if cur_st:
    mods.append((cur_pre, cur_st, cur_map))
  return mods


def correspond(res, rng, tier):
  t0 = time.time()
  _T["prove_s"] = round(t0 - _T.get("start", t0), 1)
  pyv, _ = B.pytype_view()
  cpv = B.cpython_view()
  drv = common.ensure_driver("drv_c14")
  disagreements = []
  # (a) table completeness in the compiled model
  rc = drv.batch(["rowcheck"])[0]
  if rc != "%d %d" % (len(pyv), len(pyv)):
    disagreements.append({"case": "rowcheck", "model": rc, "expected": len(pyv)})
  bcases, groups = build_cases(rng, tier)
  # real pytype on everything (one pool)
  bmods = [(B.PREAMBLE, [s for _, s in bcases[i:i + PER_MODULE]]) for i in range(0, len(bcases), PER_MODULE)]
  umods = pack_user_modules(groups)
  results = run_pytype(bmods + [(p, s) for p, s, _ in umods])
  t_py = time.time() - t0
  # (b) builtin rows
  bres = [x for r, _ in results[:len(bmods)] for x in r]
  stray = [x for _, st in results for x in st]
  if stray:
    disagreements.append({"case": "error-outside-statements", "errors": stray[:5]})
  nontrivial = set()
  kinds_hit = {}
  n_err = 0
  for (row, stmt), (errs, _) in zip(bcases, bres):
    k = B.row_key(row)
    out, _ = cpython_run(B.PREAMBLE, stmt)
    kinds_hit[row[0]] = kinds_hit.get(row[0], 0) + 1
    if errs:
      n_err += 1
    if errs or out != "OK":
      nontrivial.add(stmt)
    if errs != pyv[k]:
      disagreements.append({"case": "builtin-row", "row": k, "stmt": stmt, "pre": "builtin",
                            "pytype": errs, "table": pyv[k]})
    if side(out) not in {side(o) for o in cpv[k]}:
      disagreements.append({"case": "builtin-row-cpython", "row": k, "stmt": stmt, "pre": "builtin",
                            "cpython": out, "table": cpv[k]})
  # (c) user classes vs the Lean model
  lines, index = [], []
  for mi, (_, _, gmap) in enumerate(umods):
    for g, sts, lo in gmap:
      lines.append(g.driver_line())
      for j, (kind, text, dstmt) in enumerate(sts):
        lines.append("S " + dstmt)
        index.append((mi, lo + j, g, kind, text, dstmt))
  model = drv.batch(lines)
  n_user = len(index)
  err_kinds = {}
  shapes = {"override_reversed": 0, "reflected_used": 0, "notimpl_returned": 0, "mixed_builtin": 0,
            "user_errors": 0, "multi_inherit_groups": sum(1 for g, _ in groups if any(len(c["bases"]) > 1 for c in g.classes))}
  for (mi, li, g, kind, text, dstmt), mline in zip(index, model):
    pre = umods[mi][0]
    errs, ty = results[len(bmods) + mi][0][li]
    mpy, mcpy, mrow = mline.split(" ")
    # expected pytype error names
    if mpy.startswith("err:"):
      ek = mpy[4:]
      if mrow != "-":
        # a builtin signature took part: the error *name* is the one real pytype printed for the row
        # ([wrong-arg-types] when the failing option is a reflected builtin method, which has no symbol)
        exp = pyv.get(key_of_driver_row(mrow), ["?"])
      else:
        exp = ERRNAME[ek]
      err_kinds[ek] = err_kinds.get(ek, 0) + 1
      shapes["user_errors"] += 1
    else:
      exp = []
    if " b" in dstmt:
      shapes["mixed_builtin"] += 1
    if mpy == "ok:N":
      shapes["notimpl_returned"] += 1
    mm = re.match(r"bin u(\d+) (\w+) u(\d+)$", dstmt)
    if mm:
      a, b2 = int(mm.group(1)), int(mm.group(3))
      opd = [o for o in OPS if o[0] == mm.group(2)][0]
      if g.overrides(b2, a, opd[3]):
        shapes["override_reversed"] += 1
      if g.finds(b2, opd[3]) and (g.overrides(b2, a, opd[3]) or not g.finds(a, opd[2])):
        shapes["reflected_used"] += 1
      if a == b2:
        shapes["same_class_operands"] = shapes.get("same_class_operands", 0) + 1
    bad = None
    if errs != exp:
      bad = "errors"
    elif not exp and kind in ("bin", "sub", "neg", "call", "mcall"):
      if mpy.startswith("ok:v"):
        if ty != TAG_TYPE[int(mpy[4:])]:
          bad = "result-type"
      elif mpy == "ok:N" and ty != "_NotImplementedType":
        bad = "result-type"
    out, rty = cpython_run(pre, text)
    cp_ok = (mcpy.split(",") == [out]) if mrow == "-" else (side(out) in {side(o) for o in mcpy.split(",")})
    if bad:
      disagreements.append({"case": "user-pytype-" + bad, "stmt": text, "driver": dstmt, "pre": pre, "kind": kind,
                            "modelrow": key_of_driver_row(mrow),
                            "group": g.source(), "pytype": errs, "pytype_type": ty, "model": mpy,
                            "cpython": out, "cpython_type": rty})
    if not cp_ok:
      disagreements.append({"case": "user-cpython-model", "stmt": text, "driver": dstmt, "pre": pre, "kind": kind,
                            "modelrow": key_of_driver_row(mrow),
                            "group": g.source(), "cpython": out, "model": mcpy})
    if errs or out != "OK" or mpy.startswith("ok:v") or mpy == "ok:N":
      nontrivial.add(g.source() + text)
  n_seq = k_sequences(res, disagreements)
  res.cov["evaluations"] = len(bcases) + n_user + n_seq
  res.cov["distinct_nontrivial"] = len(nontrivial)
  res.cov["exhaustive"] = False
  res.cov["rule"] = (
      "one statement per line, about %d per module, through real io.generate_pyi (multiprocessing) and real "
      "CPython exec per statement. builtin part: rows of the regenerated table re-instantiated with fresh random "
      "values of the row's value classes (error names must equal the cached verdict of the canonical statement; "
      "CPython outcome must be on the same side TypeError/AttributeError vs not). user part: 2-class "
      "{__add__,__radd__}x{absent,value,NotImplemented} configurations with all 4 operand pairs + seeded random "
      "hierarchies (2-6 classes, up to 2 bases) with random dunder subsets, data attributes, methods, __init__ "
      "attributes; statements under + - * / (user/user and user/builtin), [], unary -, call, attribute, method "
      "call; compared: pytype error names and inferred result type per line vs the Lean model (driver), CPython "
      "outcome vs the model's CPython side. non-trivial = pytype reports an error or CPython raises or a user "
      "method's return value is the result; distinct = distinct (class definitions, statement) texts.  Sequence "
      "family (property oracle, no model): straight-line programs whose statements depend on earlier ones — ==-equal "
      "constant tuples of different element types, attributes set 0-3 helper calls below __init__, an attribute "
      "rebound through an outer object between identical method calls — executed cumulatively under CPython, every "
      "statement compared with pytype's verdict in both directions" % PER_MODULE)
  res.cov["distribution"] = {
      "builtin_statements": len(bcases), "builtin_with_pytype_error": n_err, "builtin_rows_by_kind": kinds_hit,
      "user_statements": n_user, "user_groups": len(groups), "user_model_error_kinds": err_kinds,
      "user_shapes": shapes, "modules": len(bmods) + len(umods), "pytype_wall_s": round(t_py, 1),
      "table_rows": len(pyv), "timing": dict((k, v) for k, v in _T.items() if k != "start"),
      "correspond_wall_s": round(time.time() - t0, 1),
  }
  res.add_samples([{"builtin": [s for _, s in bcases[:6]]},
                   {"user_group": groups[-1][0].source(), "statements": [s[1] for s in groups[-1][1][:8]],
                    "driver": [groups[-1][0].driver_line()] + ["S " + s[2] for s in groups[-1][1][:8]]}])
  return disagreements


# ----------------------------------------------------------------------------
# W
# ----------------------------------------------------------------------------
def oracle(pre, stmt, errs, row=None, advertised=None):
  """The property's own oracle on one statement: '' | 'clause1' | 'clause2'."""
  out, _ = cpython_run(pre, stmt)
  if errs and side(out) == "good":
    return "clause1", out
  if not errs and side(out) == "bad" and advertised:
    return "clause2", out
  return "", out


def witnesses(res):
  known, _ = common.known_findings("C14")
  ents = [e for e in known if "row" in e.get("witness", {})]
  if not ents:
    return
  stmts = [e["witness"]["stmt"] for e in ents]
  out = []
  for i in range(0, len(stmts), PER_MODULE):
    out.extend(run_pytype([(B.PREAMBLE, stmts[i:i + PER_MODULE])])[0][0])
  still, gone = 0, []
  for e, (errs, _) in zip(ents, out):
    w = e["witness"]
    row = tuple(w["row"].split("|"))
    o, _ = cpython_run(B.PREAMBLE, w["stmt"])
    adv = B.advertised(row, [o])
    verdict, _ = oracle(B.PREAMBLE, w["stmt"], errs, advertised=adv)
    if verdict == ("clause1" if w["clause"] == 1 else "clause2"):
      still += 1
      res.known_lines.append("%s: %s" % (e["id"], e["what"]))
    else:
      gone.append(e["id"])
  res.cov["witnesses_replayed"] = len(ents)
  res.cov["known_still_failing"] = still
  res.cov["known_no_longer_failing"] = gone


# ----------------------------------------------------------------------------
# S
# ----------------------------------------------------------------------------
PROBES = [("%s + \"\"", "str"), ("%s + b\"\"", "bytes"), ("%s.bit_length", "int"), ("%s + 0", "int/float")]


def search(res, rng, disagreements, pfail):
  """Per-statement exec under CPython vs real pytype's verdict."""
  t0 = time.time()
  kf, km = B.known_rows()
  known = set(kf) | set(km)
  cands = []   # (pre, stmt, row key or None, advertised or None, group source or None)
  seen = set()

  def add(pre, stmt, row=None, adv=None, group=None):
    if (pre, stmt) not in seen:
      seen.add((pre, stmt))
      cands.append((pre, stmt, row, adv, group))
  # 0. sequence-family disagreements are failing inputs of the property's oracle as they stand: re-confirm on the
  #    real code and shrink the statement list (the failing statement is kept)
  seq_found = []
  for d in disagreements:
    if not d.get("case", "").startswith("sequence-clause") or len(seq_found) >= 2:
      continue
    pre, st = d["pre"], d["stmts"]
    want = d["case"]

    def fails(lines, pre=pre, want=want, last=st[-1]):
      if not lines or lines[-1] != last:
        return False
      per, _ = B.run_modules([(pre, lines, False)])[0]
      outs = sequence_cpython(pre, lines)
      errs, out = per[-1][0], outs[-1]
      return (want == "sequence-clause1" and bool(errs) and side(out) == "good") or \
             (want == "sequence-clause2" and not errs and side(out) == "bad")
    if fails(st):
      small = common.ddmin(st, fails, budget_s=40, keep=lambda l: l == st[-1])
      per, _ = B.run_modules([(pre, small, False)])[0]
      seq_found.append({"clause": 1 if want.endswith("1") else 2, "classes": pre or None, "statements": small,
                        "statement": small[-1], "pytype_errors": per[-1][0], "cpython": sequence_cpython(pre, small)[-1],
                        "what": "straight-line program: the last statement is %s" % (
                            "flagged although it raises neither TypeError nor AttributeError" if want.endswith("1")
                            else "not flagged although CPython raises TypeError/AttributeError for a basic mistake")})
  if seq_found:
    return seq_found
  # 1. the disagreeing inputs and type probes derived from them
  for d in disagreements:
    if "stmt" not in d or d.get("case", "").startswith("sequence-"):
      continue
    pre = B.PREAMBLE if d.get("pre") == "builtin" else d.get("pre", B.PREAMBLE)
    if d.get("modelrow") in known:
      continue
    add(pre, d["stmt"], d.get("row"), d.get("kind") in ("attr", "mcall", "call"), d.get("group"))
    if d.get("case", "").startswith("user-pytype") and d.get("model", "").startswith("ok:v") \
       and d.get("cpython_type") == TAG_TYPE[int(d["model"][4:])]:
      for p, _ in PROBES:
        add(pre, p % ("(%s)" % d["stmt"]), None, False, d.get("group"))
  # 2. every table row: canonical + one random instantiation
  for row in B.rows():
    k = B.row_key(row)
    add(B.PREAMBLE, B.canonical_stmt(row), k)
    add(B.PREAMBLE, B.stmt_of(row[0], row[1], rand_value(rng, row[2]), rand_value(rng, row[3]) if row[3] else ""), k)
  # 3. fresh user statements (+ probes where the Lean model and CPython agree on the result)
  drv = None
  try:
    drv = common.Driver("drv_c14")
  except Exception:
    pass
  for i in range(10):
    g = rand_group(rng, "Q%d" % i)
    sts = user_statements(g, rng, 40)
    pre = B.PREAMBLE + g.source()
    model = drv.batch([g.driver_line()] + ["S " + s[2] for s in sts]) if drv else [None] * len(sts)
    for (kind, text, dstmt), ml in zip(sts, model):
      rk = key_of_driver_row(ml.split(" ")[2]) if ml else None
      if rk in known:
        continue     # mixed statement that consults a known-finding row
      add(pre, text, None, kind in ("attr", "mcall", "call"), g.source())
      if ml and kind in ("bin", "sub", "neg", "call", "mcall") and ml.startswith("ok:v"):
        _, rty = cpython_run(pre, text)
        if rty == TAG_TYPE[int(ml.split(" ")[0][4:])]:
          for p, _ in PROBES[:3]:
            add(pre, p % ("(%s)" % text), None, False, g.source())
  # run real pytype, grouped by preamble
  bypre = {}
  for c in cands:
    bypre.setdefault(c[0], []).append(c)
  mods, back = [], []
  for pre, cs in bypre.items():
    for i in range(0, len(cs), PER_MODULE):
      mods.append((pre, [c[1] for c in cs[i:i + PER_MODULE]]))
      back.append(cs[i:i + PER_MODULE])
  results = run_pytype(mods)
  found = []
  for cs, (per, _) in zip(back, results):
    for (pre, stmt, row, adv, group), (errs, _) in zip(cs, per):
      if row is not None and row in known:
        continue
      if row is not None:
        o, _ = cpython_run(pre, stmt)
        adv = B.advertised(tuple(row.split("|")), [o])
      verdict, out = oracle(pre, stmt, errs, advertised=adv)
      if verdict:
        found.append({"clause": 1 if verdict == "clause1" else 2, "statement": stmt,
                      "pytype_errors": errs, "cpython": out, "row": row,
                      "classes": group, "preamble": None if group else "builtin preamble (translate/builtin_ops.PREAMBLE)",
                      "what": ("pytype reports %s but the statement raises neither TypeError nor AttributeError"
                               % errs) if verdict == "clause1" else
                              "CPython raises %s for an advertised basic mistake, pytype is silent" % out})
  res.cov["search"] = {"candidates": len(cands), "modules": len(mods), "wall_s": round(time.time() - t0, 1),
                       "failing": len(found)}
  # prefer small, attributable inputs: statements of the table first, then user statements; shrink classes
  found.sort(key=lambda f: (f["classes"] is not None, len(f["statement"])))
  out = []
  for f in found[:3]:
    if f["classes"]:
      f = shrink_user(f)
    out.append(f)
  return out


def shrink_user(f):
  """ddmin over the lines of the class definitions (keeps `class` headers)."""
  lines = f["classes"].rstrip("\n").split("\n")
  # units: class header | member (1-2 lines) | init block
  units, cur = [], []
  for ln in lines:
    if ln.startswith("class ") or (ln.startswith("  ") and not ln.startswith("    ")):
      if cur:
        units.append(cur)
      cur = [ln]
    else:
      cur.append(ln)
  if cur:
    units.append(cur)

  def render(us):
    out = []
    for i, u in enumerate(us):
      out.extend(u)
      if u[0].startswith("class ") and (i + 1 == len(us) or us[i + 1][0].startswith("class ")):
        out.append("  pass")
    return "\n".join(out) + "\n"

  def fails(us):
    src = render(us)
    pre = B.PREAMBLE + src
    try:
      compile(pre, "<p>", "exec")
    except SyntaxError:
      return False
    per, _ = _run_module((pre, [f["statement"]]))
    errs = per[0][0]
    adv = f["clause"] == 2
    v, _ = oracle(pre, f["statement"], errs, advertised=adv)
    return v == ("clause1" if f["clause"] == 1 else "clause2")
  try:
    small = common.ddmin(units, fails, budget_s=40.0, keep=lambda u: u[0].startswith("class "))
    f = dict(f)
    f["classes"] = render(small)
  except Exception:
    pass
  return f


_T = {}


def main():
  t0 = time.time()
  B.main(verbose=False)   # prepare: regenerate Slots.lean / BuiltinOps.lean (rewritten only on change)
  _T["prepare_s"] = round(time.time() - t0, 1)
  _T["start"] = time.time()
  return common.run_check(
      "C14", REQUIRED, correspond, witnesses, search,
      trusted=["hand-written model of _call_binop_on_bindings/_overrides/get_attribute/call_function and of CPython's "
               "binary_op1/slot_nb_*/getattr/call (Sem/Dispatch.lean); both sides tied by per-statement runs of real "
               "pytype and the running CPython %s" % sys.version.split()[0],
               "translate/builtin_ops.py: the builtin tables are REAL pytype's verdict on one canonical statement per "
               "row and CPython's outcomes over a few representative values per value class; uniformity of a row over "
               "other values is sampled by K, not proved",
               "known_findings.json C14 rows (the exception lists the theorems quantify around)"],
      assumptions=["fragment F14: single-operator statements; plain generated classes (no builtin bases, metaclasses, "
                   "descriptors, __getattr__, __slots__, dunders as data or instance attributes)",
                   "the MRO of a generated class is taken from the running interpreter (its agreement with pytype is C10)",
                   "CPython compiles `1 * 1.5` to a constant: scalar/tuple value classes are represented by names bound "
                   "to literals as well as by the literals"],
      extra_targets=["drv_c14"])


if __name__ == "__main__":
  sys.exit(main())
