"""C06 — a module seen through its emitted stub has the types that were inferred for it (DESIGN.md §5 C06).

P  lean/PytypeModel/Props/C06.lean (model: Pytd/AbsConvert.lean).
K  K2: convert.py -> output.py called directly on generated pytd types (bindings, nested JoinTypes, module-level
       export) vs the Lean driver, exact;
   K1: generated upstream programs, downstream module derived from the upstream stub, three transports (stub on the
       python path, imports-map entry, pickled stub); downstream stub types vs the model's prediction on the *loaded*
       upstream unit, vs the upstream stub (the property's own oracle), and across transports; downstream error log
       must be empty.
W  known findings (none recorded so far for C06) are replayed with the oracle of K1.
S  the oracle of K1 on real code only, shrinking the upstream program by statement removal.
"""
import json
import multiprocessing as mp
import os
import shutil
import sys
import time
import traceback

from harness import common

REQUIRED = ["reexport_same", "reexport_same_nested", "reexport_bindings", "reexport_idem", "reexport_idem_not_full",
            "reexport_identity", "reexport_names_round_trip", "text_eq_pickle", "text_eq_pickle_not_syntactic",
            "no_spurious_import_error", "transports_preserve_resolution"]

WORK = os.path.join(common.BUILD, "c06")
TYPESHED = os.path.join(WORK, "typeshed")
# scratch of THIS run (the pool workers are forked from this process and inherit it): two C06 runs at the same time
# must not clean up each other's files
RUN = os.path.join(WORK, "run%d" % os.getpid())
PYVER = (3, 12)
NWORKERS = min(16, max(2, (os.cpu_count() or 4)))
TRANSPORTS = ["path", "imap", "pickle"]


def prepare():
  """An initialised-but-empty typeshed: `a.C.N` makes the loader probe `a.C` as a module name, which reaches the
  typeshed loader; with the sandbox's empty /repo/typeshed that is a UsageError instead of "not found"."""
  for d in ("stdlib", "stubs", "tests"):
    os.makedirs(os.path.join(TYPESHED, d), exist_ok=True)
  for f in ("stdlib/VERSIONS", "tests/pytype_exclude_list.txt"):
    p = os.path.join(TYPESHED, f)
    if not os.path.exists(p):
      open(p, "w").close()
  os.environ["TYPESHED_HOME"] = TYPESHED


# ------------------------------------------------------------------------------------------ generators
SCALARS = ["1", "1.5", "'s'", "b'b'", "True", "None", "2j"]


class Gen:
  """Loop-free upstream modules: constants of scalar/container/tuple/union/Optional types (unions come from
  branches), functions returning such values, classes with class and instance attributes, methods, nested
  classes; instances and class objects of those classes as values."""

  def __init__(self, rng):
    self.rng = rng
    self.classes = []     # python expressions naming classes defined so far, e.g. "C0", "C0.N0"
    self.k = 0

  def cond(self):
    return "len(_L) > %d" % self.rng.randrange(0, 6)

  def scalar(self):
    return self.rng.choice(SCALARS)

  def value(self, depth):
    r = self.rng.random()
    if depth <= 0 or r < 0.30:
      if self.classes and self.rng.random() < 0.30:
        c = self.rng.choice(self.classes)
        return c + "()" if self.rng.random() < 0.75 else c
      return self.scalar()
    n = self.rng.choice([0, 1, 1, 2, 2, 3])
    xs = [self.value(depth - 1) for _ in range(n)]
    if r < 0.45:
      return "[" + ", ".join(xs) + "]"
    if r < 0.60:
      return "(" + ", ".join(xs) + ("," if len(xs) == 1 else "") + ")"
    if r < 0.70:
      ks = [self.rng.choice(["1", "'k'", "None", "2.5", "(1, 's')"]) for _ in xs]
      return "{" + ", ".join("%s: %s" % kv for kv in zip(ks, xs)) + "}"
    if r < 0.78:
      hs = [self.rng.choice(["1", "'e'", "None", "2.5", "(1, 's')", "b'b'"]) for _ in xs]
      return ("{" + ", ".join(hs) + "}") if hs else "set()"
    if r < 0.83:
      hs = [self.rng.choice(["1", "'e'", "None"]) for _ in xs]
      return "frozenset([" + ", ".join(hs) + "])"
    return "(%s if %s else %s)" % (self.value(depth - 1), self.cond(), self.value(depth - 1))

  def assign(self, name, ind=""):
    """one or more lines binding `name`"""
    d = self.rng.choice([1, 2, 2, 3])
    r = self.rng.random()
    if r < 0.6:
      return ["%s%s = %s" % (ind, name, self.value(d))]
    if r < 0.85:
      return ["%sif %s:" % (ind, self.cond()), "%s  %s = %s" % (ind, name, self.value(d)),
              "%selse:" % ind, "%s  %s = %s" % (ind, name, self.value(d))]
    return ["%sif %s:" % (ind, self.cond()), "%s  %s = %s" % (ind, name, self.value(d)),
            "%selif %s:" % (ind, self.cond()), "%s  %s = %s" % (ind, name, self.value(d)),
            "%selse:" % ind, "%s  %s = %s" % (ind, name, self.value(d))]

  def ret_body(self, ind):
    d = self.rng.choice([1, 2, 2])
    if self.rng.random() < 0.6:
      return ["%sreturn %s" % (ind, self.value(d))]
    return ["%sif %s:" % (ind, self.cond()), "%s  return %s" % (ind, self.value(d)),
            "%sreturn %s" % (ind, self.value(d))]

  def params(self):
    n = self.rng.choice([0, 0, 1, 2])
    return ", ".join("p%d=%s" % (i, self.scalar()) for i in range(n))

  def klass(self, name, qual, ind, nest):
    lines = ["%sclass %s:" % (ind, name)]
    body = []
    for i in range(self.rng.randrange(0, 3)):
      body += self.assign("ca%d" % i, ind + "  ")
    if nest > 0 and self.rng.random() < 0.45:
      nn = "N%d" % self.k
      self.k += 1
      body += self.klass(nn, qual + "." + nn, ind + "  ", nest - 1)
      if self.rng.random() < 0.5:
        body += ["%s  nv = %s()" % (ind, nn)]
    ni = self.rng.randrange(0, 3)
    if ni or self.rng.random() < 0.3:
      body.append("%s  def __init__(self%s):" % (ind, (", " + self.params()) if self.rng.random() < 0.3 else ""))
      body[-1] = body[-1].replace("(self, )", "(self)")
      if ni == 0:
        body.append("%s    pass" % ind)
      for i in range(ni):
        body += self.assign("self.ia%d" % i, ind + "    ")
    for i in range(self.rng.randrange(0, 3)):
      ps = self.params()
      body.append("%s  def m%d(self%s):" % (ind, i, (", " + ps) if ps else ""))
      body += self.ret_body(ind + "    ")
    if not body:
      body = ["%s  pass" % ind]
    self.classes.append(qual)
    return lines + body

  def program(self):
    """list of top-level items (each a list of lines); item 0 is the opaque-condition helper"""
    items = [["_L = [0, 0, 0]"]]
    n = self.rng.randrange(4, 11)
    nx = nf = nc = 0
    for _ in range(n):
      r = self.rng.random()
      if r < 0.25 and nc < 3:
        name = "C%d" % nc
        nc += 1
        items.append(self.klass(name, name, "", 1))
      elif r < 0.45:
        ps = self.params()
        items.append(["def f%d(%s):" % (nf, ps)] + self.ret_body("  "))
        nf += 1
      else:
        items.append(self.assign("x%d" % nx))
        nx += 1
    return items


def program_src(items):
  return "\n".join("\n".join(it) for it in items) + "\n"


# ------------------------------------------------------------------------------- worker-side real code
_S = {}


def _init():
  import logging
  import warnings
  warnings.simplefilter("ignore")
  logging.disable(logging.CRITICAL)     # pytype logs "No visible options" etc. to stderr
  prepare()
  common.load_pytype()
  from pytype import analyze, config, context, io, load_pytd
  from pytype.abstract import abstract
  from pytype.imports import base as imports_base
  from pytype.pyi import parser
  from pytype.pytd import pytd, pytd_utils, visitors
  _S.update(analyze=analyze, config=config, context=context, io=io, load_pytd=load_pytd, abstract=abstract,
            imports_base=imports_base, parser=parser, pytd=pytd, pytd_utils=pytd_utils, visitors=visitors)


def _errs(ret):
  return [[e.name, e.line, str(e.message)[:160]] for e in ret.context.errorlog.unique_sorted_errors()]


# --- pytd node -> s-expression for the driver (names fully qualified as in the node)
def sx(t):
  pytd = _S["pytd"]
  if isinstance(t, pytd.AnythingType):
    return "A"
  if isinstance(t, pytd.NothingType):
    return "N"
  if isinstance(t, pytd.ClassType):
    return "(c %s)" % t.name
  if isinstance(t, pytd.NamedType):
    return "(n %s)" % t.name
  if isinstance(t, pytd.LateType):
    return "(l %s)" % t.name
  if isinstance(t, pytd.TupleType):
    return "(t %s)" % " ".join([sx(t.base_type)] + [sx(p) for p in t.parameters])
  if isinstance(t, pytd.CallableType):
    return "(X)"
  if isinstance(t, pytd.GenericType):
    return "(g %s)" % " ".join([sx(t.base_type)] + [sx(p) for p in t.parameters])
  if isinstance(t, pytd.UnionType):
    return "(u%s)" % "".join(" " + sx(p) for p in t.type_list)
  return "(X)"


def _mk_union(ms):
  flat = []
  for m in ms:
    if m[0] == "u":
      flat.extend(m[1])
    else:
      flat.append(m)
  flat = sorted(set(flat), key=repr)
  return flat[0] if len(flat) == 1 else ("u", tuple(flat))


def _mk_generic(kind, base, ps):
  # `tuple[Any, ...]` / `list[Any]` and the bare class are one type (a bare generic class means Any parameters): the
  # model spells the bare class with its Any parameters, the real code keeps what the stub said
  if kind == "g" and ps and all(p == ("A",) for p in ps):
    return base
  # type[Union[X, Y]] is the optimiser's spelling of Union[type[X], type[Y]] (CombineContainers)
  if kind == "g" and base == ("n", "type") and len(ps) == 1 and ps[0][0] == "u":
    return _mk_union([("g", base, (m,)) for m in ps[0][1]])
  return (kind, base, tuple(ps))


def canon(t, qual=None):
  """order-insensitive structural form of a pytd type; `builtins.` prefixes dropped; ClassType = NamedType =
  LateType; `type[Union[..]]` distributed; nested unions flattened"""
  pytd = _S["pytd"]
  if isinstance(t, pytd.AnythingType):
    return ("A",)
  if isinstance(t, pytd.NothingType):
    return ("N",)
  if isinstance(t, (pytd.ClassType, pytd.NamedType, pytd.LateType)):
    n = t.name
    if n.startswith("builtins."):
      n = n[len("builtins."):]
    if n == "NoneType":
      n = "None"
    return ("n", n)
  if isinstance(t, pytd.TupleType):
    return ("t", canon(t.base_type), tuple(canon(p) for p in t.parameters))
  if isinstance(t, pytd.CallableType):
    return ("k", canon(t.base_type), tuple(canon(p) for p in t.parameters))
  if isinstance(t, pytd.GenericType):
    return _mk_generic("g", canon(t.base_type), [canon(p) for p in t.parameters])
  if isinstance(t, pytd.UnionType):
    return _mk_union([canon(p) for p in t.type_list])
  return ("X", type(t).__name__, _S["pytd_utils"].Print(t))


def canon_sx(e):
  """the same canonical form from a parsed driver s-expression"""
  if e == "A":
    return ("A",)
  if e == "N":
    return ("N",)
  if isinstance(e, list) and e and e[0] in ("n", "c", "l") and len(e) == 2:
    n = e[1]
    if n.startswith("builtins."):
      n = n[len("builtins."):]
    if n == "NoneType":
      n = "None"
    return ("n", n)
  if isinstance(e, list) and e and e[0] == "g":
    return _mk_generic("g", canon_sx(e[1]), [canon_sx(p) for p in e[2:]])
  if isinstance(e, list) and e and e[0] == "t":
    return ("t", canon_sx(e[1]), tuple(canon_sx(p) for p in e[2:]))
  if isinstance(e, list) and e and e[0] == "u":
    return _mk_union([canon_sx(p) for p in e[1:]])
  return ("X", repr(e))


def parse_sx(s):
  toks = s.replace("(", " ( ").replace(")", " ) ").split()
  pos = [0]

  def rd():
    t = toks[pos[0]]
    pos[0] += 1
    if t == "(":
      out = []
      while toks[pos[0]] != ")":
        out.append(rd())
      pos[0] += 1
      return out
    return t
  return rd()


# --- upstream
def run_upstream(src, d):
  """analyse module `a`; write a.pyi and a.pickled into d"""
  io, config = _S["io"], _S["config"]
  os.makedirs(d, exist_ok=True)
  opts = config.Options.create(python_version=PYVER, module_name="a")
  ret, pyi = io.generate_pyi(src, opts)
  errs = _errs(ret)
  with open(os.path.join(d, "a.pyi"), "w") as fh:
    fh.write(pyi)
  o2 = config.Options.create(python_version=PYVER, module_name="a", output=os.path.join(d, "a.pickled"))
  o2.tweak(input="a.py")
  io.write_pickle(ret.ast, o2, ret.context.loader)
  return pyi, errs


def _sig_callable0(sig, skip_self):
  ps = list(sig.params)
  if skip_self:
    if not ps:
      return False
    ps = ps[1:]
  return all(p.optional for p in ps) and True


def derive_reads(pyi):
  """downstream module derived from the upstream stub: every public name is re-exported"""
  parser, pytd = _S["parser"], _S["pytd"]
  ast = parser.parse_string(pyi, filename="a.pyi", name="a", options=parser.PyiOptions(python_version=PYVER))
  reads = []   # (python expr or import, read s-expression, declared type node, kind)

  def short(n):
    return n[2:] if n.startswith("a.") else n
  for c in ast.constants:
    n = short(c.name)
    if n.startswith("_"):
      continue
    reads.append(("from", n, "(const a.%s)" % n, c.type))
    reads.append(("expr", "a.%s" % n, "(const a.%s)" % n, c.type))
  for f in ast.functions:
    n = short(f.name)
    if n.startswith("_"):
      continue
    if len(f.signatures) == 1 and _sig_callable0(f.signatures[0], False):
      reads.append(("expr", "a.%s()" % n, "(call a.%s)" % n, f.signatures[0].return_type))

  def walk(cls, path):
    qn = short(cls.name)                       # C or C.N
    p = path + [cls.name]
    pstr = " ".join(p)
    init_ok = True
    for m in cls.methods:
      if m.name == "__init__":
        init_ok = all(_sig_callable0(s, True) for s in m.signatures)
    reads.append(("expr", "a.%s" % qn, "(cref %s)" % pstr,
                  pytd.GenericType(pytd.NamedType("type"), (pytd.NamedType(cls.name),))))
    for c in cls.constants:
      if c.name.startswith("_"):
        continue
      reads.append(("expr", "a.%s.%s" % (qn, c.name), "(cattr %s %s)" % (c.name, pstr), c.type))
      if init_ok:
        reads.append(("expr", "a.%s().%s" % (qn, c.name), "(iattr %s %s)" % (c.name, pstr), c.type))
    for m in cls.methods:
      if m.name.startswith("_") or m.kind != pytd.MethodKind.METHOD:
        continue
      if init_ok and len(m.signatures) == 1 and _sig_callable0(m.signatures[0], True):
        reads.append(("expr", "a.%s().%s()" % (qn, m.name), "(mcall %s %s)" % (m.name, pstr),
                      m.signatures[0].return_type))
    for k in cls.classes:
      walk(k, p)
  for cls in ast.classes:
    if not short(cls.name).startswith("_"):
      walk(cls, [])
  lines = ["import a"]
  out = []
  for i, (kind, e, rsx, decl) in enumerate(reads):
    name = "r%d" % i
    if kind == "from":
      lines.append("from a import %s as %s" % (e, name))
    else:
      lines.append("%s = %s" % (name, e))
    out.append({"name": name, "expr": e if kind == "expr" else "from a import " + e, "read": rsx,
                "decl": canon(decl), "decl_txt": _S["pytd_utils"].Print(decl)})
  return "\n".join(lines) + "\n", out


def unit_sx(ast):
  """the loaded (resolved) upstream unit for the driver"""
  def consts(cs):
    return "(K%s)" % "".join(" (k %s %s)" % (c.name, sx(c.type)) for c in cs)

  def funcs(fs):
    out = []
    for f in fs:
      if len(f.signatures) == 1:
        out.append(" (f %s %s)" % (f.name, sx(f.signatures[0].return_type)))
      else:
        out.append(" (f %s)" % f.name)
    return "(F%s)" % "".join(out)

  def klass(c):
    return "(cls %s %s %s (C%s))" % (c.name, consts(c.constants), funcs(c.methods),
                                    "".join(" " + klass(k) for k in c.classes))
  return "(U %s %s %s (C%s))" % (ast.name, consts(ast.constants), funcs(ast.functions),
                                "".join(" " + klass(k) for k in ast.classes))


def run_downstream(bsrc, d, transport):
  io, config = _S["io"], _S["config"]
  if transport == "path":
    opts = config.Options.create(python_version=PYVER, module_name="b", pythonpath=d)
  elif transport == "imap":
    opts = config.Options.create(python_version=PYVER, module_name="b", pythonpath="",
                                 imports_map_items=[("a", os.path.join(d, "a.pyi"))])
  else:
    opts = config.Options.create(python_version=PYVER, module_name="b", pythonpath="",
                                 imports_map_items=[("a", os.path.join(d, "a.pickled"))], use_pickled_files=True)
  ret, pyi = io.generate_pyi(bsrc, opts)
  errs = _errs(ret)
  types = {}
  others = {}
  pytd = _S["pytd"]
  for c in ret.ast.constants:
    types[c.name] = (canon(c.type), _S["pytd_utils"].Print(c.type))
  for a in ret.ast.aliases:
    others[a.name] = "alias " + _S["pytd_utils"].Print(a)
    if isinstance(a.type, pytd.Type):
      # convert.py: "`X: Type[other_mod.X]` is equivalent to `X = other_mod.X`"
      types[a.name] = (canon(pytd.GenericType(pytd.NamedType("builtins.type"), (a.type,))),
                       _S["pytd_utils"].Print(a))
  for f in ret.ast.functions:
    others[f.name] = "function"
  for c in ret.ast.classes:
    others[c.name] = "class"
  up = ret.context.loader.import_name("a")
  # the property's own oracle works on the printed stub: parse it back
  parser = _S["parser"]
  past = parser.parse_string(pyi, filename="b.pyi", name="b", options=parser.PyiOptions(python_version=PYVER))
  ptypes = {}
  for c in past.constants:
    n = c.name[2:] if c.name.startswith("b.") else c.name
    ptypes[n] = (canon(c.type), _S["pytd_utils"].Print(c.type))
  for a in past.aliases:
    n = a.name[2:] if a.name.startswith("b.") else a.name
    if isinstance(a.type, pytd.Type) and n.startswith("r"):
      ptypes[n] = (canon(pytd.GenericType(pytd.NamedType("type"), (a.type,))), _S["pytd_utils"].Print(a))
  return {"pyi": pyi, "errors": errs, "types": types, "others": others, "unit": unit_sx(up), "ptypes": ptypes}


def pair_task(args):
  """One (upstream program, derived downstream, 3 transports) case on the real code."""
  idx, src = args
  d = os.path.join(RUN, "p%d" % os.getpid(), "c%d" % idx)
  out = {"idx": idx, "src": src}
  try:
    pyi, errs = run_upstream(src, d)
    out["pyi"] = pyi
    out["up_errors"] = errs
    bsrc, reads = derive_reads(pyi)
    out["bsrc"] = bsrc
    out["reads"] = reads
    out["down"] = {}
    for tr in TRANSPORTS:
      try:
        out["down"][tr] = run_downstream(bsrc, d, tr)
      except Exception as e:  # pylint: disable=broad-except
        out["down"][tr] = {"exception": repr(e), "trace": traceback.format_exc()[-1200:]}
  except Exception as e:  # pylint: disable=broad-except
    out["exception"] = repr(e)
    out["trace"] = traceback.format_exc()[-1500:]
  finally:
    shutil.rmtree(d, ignore_errors=True)
  return out


def oracle_failures(case):
  """The property's own oracle on one evaluated case: list of failure dicts (empty = property holds)."""
  fails = []
  if "exception" in case:
    return [{"kind": "upstream-crash", "exception": case["exception"]}]
  if case["up_errors"]:
    return []     # not a well-formed upstream module (only reached while shrinking)
  ref = None
  for tr in TRANSPORTS:
    dn = case["down"].get(tr)
    if dn is None:
      continue
    if "exception" in dn:
      fails.append({"kind": "downstream-crash", "transport": tr, "exception": dn["exception"]})
      continue
    if dn["errors"]:
      fails.append({"kind": "spurious-error", "transport": tr, "errors": dn["errors"][:4]})
    for r in case["reads"]:
      got = dn["ptypes"].get(r["name"])
      if got is None:
        fails.append({"kind": "name-not-a-constant", "transport": tr, "read": r["expr"],
                      "is": dn["others"].get(r["name"], "missing")})
      elif got[0] != tuple_deep(r["decl"]) and not allowed_change(tuple_deep(r["decl"]), got[0], r):
        fails.append({"kind": "type-changed", "transport": tr, "read": r["expr"], "upstream": r["decl_txt"],
                      "downstream": got[1]})
    cur = {r["name"]: dn["ptypes"].get(r["name"], (None,))[0] for r in case["reads"]}
    if ref is None:
      ref = (tr, cur)
    elif cur != ref[1]:
      bad = [n for n in cur if cur[n] != ref[1].get(n)]
      fails.append({"kind": "transports-differ", "transports": [ref[0], tr], "names": bad[:5]})
  return fails


def tuple_deep(x):
  if isinstance(x, (list, tuple)):
    return tuple(tuple_deep(y) for y in x)
  return x


def has_any(c):
  return c == ("A",) or (isinstance(c, tuple) and any(has_any(x) for x in c if isinstance(x, tuple)))


def allowed_change(up, down, r):
  """The explicit normalisation list of `normOut` that changes a type between the two stubs:
  at module level `Any` absorbs every other union member (pytd_for_types), while a return type / attribute in
  the upstream stub may still say `Optional[Any]`."""
  if down == ("A",) and up[0] == "u" and ("A",) in up[1]:
    return True
  return False


# ------------------------------------------------------------------------------------------ K2 (direct)
K2_STUB = """
class C:
    class N:
        z: int
    ca: int
class D: ...
"""
K2_NAMES = ["int", "str", "float", "bool", "bytes", "complex", "NoneType", "object", "a.C", "a.C.N", "a.D"]


def gen_type(rng, depth, top=True):
  """python-side description of a pytd type in (mostly) the fragment"""
  r = rng.random()
  if depth <= 0 or r < 0.32:
    q = rng.random()
    if q < 0.08:
      return ("A",)
    if q < 0.12 and not top:
      return ("N",)
    if q < 0.16:
      return ("bare", rng.choice(["list", "dict", "set", "frozenset", "tuple"]))
    if q < 0.20:
      return ("n", rng.choice(["type", "property"]))
    return ("n", rng.choice(K2_NAMES))
  if r < 0.50:
    b = rng.choice(["list", "set", "frozenset", "tuple", "dict", "dict"])
    n = 2 if b == "dict" else 1
    return ("g", b, tuple(gen_type(rng, depth - 1, False) for _ in range(n)))
  if r < 0.64:
    return ("t", tuple(gen_type(rng, depth - 1, False) for _ in range(rng.choice([0, 1, 2, 2, 3]))))
  if r < 0.70:
    q = rng.random()
    return ("ty", ("A",) if q < 0.2 else ("n", rng.choice(K2_NAMES)))
  ms = []
  for _ in range(rng.choice([1, 2, 2, 3, 3, 4])):
    m = gen_type(rng, depth - 1, False)
    if m[0] != "u":
      ms.append(m)
  return ("u", tuple(ms)) if ms else ("n", "int")


def k2_task(args):
  """convert + output called directly on a batch of generated types"""
  seed_types = args
  pytd, parser, load_pytd, config = _S["pytd"], _S["parser"], _S["load_pytd"], _S["config"]
  pytd_utils, abstract = _S["pytd_utils"], _S["abstract"]
  o = config.Options.create(python_version=PYVER, module_name="b")
  loader = load_pytd.create_loader(o)
  ast = parser.parse_string(K2_STUB, filename="a.pyi", name="a", options=parser.PyiOptions(python_version=PYVER))

  def mk(d):
    k = d[0]
    if k == "A":
      return pytd.AnythingType()
    if k == "N":
      return pytd.NothingType()
    if k == "n" or k == "bare":
      return pytd.NamedType(d[1])
    if k == "g":
      return pytd.GenericType(pytd.NamedType(d[1]), tuple(mk(p) for p in d[2]))
    if k == "t":
      return pytd.TupleType(pytd.NamedType("tuple"), tuple(mk(p) for p in d[1]))
    if k == "ty":
      return pytd.GenericType(pytd.NamedType("type"), (mk(d[1]),))
    if k == "u":
      return pytd.UnionType(tuple(mk(p) for p in d[1]))
    raise ValueError(d)
  consts = tuple(pytd.Constant("a.x%d" % i, mk(d)) for i, d in enumerate(seed_types))
  ast = ast.Replace(constants=consts)
  loader.load_module(_S["imports_base"].ModuleInfo("a", "a.pyi"), mod_ast=ast)
  ast = loader.import_name("a")
  ctx = _S["context"].Context(o, loader, src="")
  node = ctx.root_node
  ctx.exitpoint = node

  def ref(cls):
    return "%s %s" % (cls.module or "-", cls.name)

  def rv(v):
    if isinstance(v, abstract.Tuple):
      return "(tup%s)" % "".join(" " + rvar(var.data) for var in v.pyval)
    if isinstance(v, abstract.Unsolvable):
      return "U"
    if isinstance(v, abstract.Empty):
      return "E"
    if isinstance(v, abstract.Class):
      return "(cls %s)" % ref(v)
    if isinstance(v, abstract.Instance):
      tmpl = [t.name for t in v.cls.template]
      if not tmpl:
        return "(inst %s)" % ref(v.cls)
      ps = []
      for t in tmpl:
        if v.has_instance_type_parameter(t):
          ps.append(rvar(v.get_instance_type_parameter(t).data))
        else:
          ps.append("(U)")
      return "(pinst %s%s)" % (ref(v.cls), "".join(" " + p for p in ps))
    return "(other %s)" % type(v).__name__

  def rvar(vals):
    return "(" + " ".join(rv(x) for x in vals) + ")"
  res = []
  for c in ast.constants:
    item = {"name": c.name, "sx": sx(c.type), "txt": pytd_utils.Print(c.type)}
    try:
      var = ctx.convert.constant_to_var(c, node=node)
      vals = list(var.data)
      item["abs"] = rvar(vals)
      tys = [ctx.pytd_convert.value_to_pytd_type(node, v, None, None) for v in vals]
      item["in"] = sx(pytd_utils.JoinTypes(tys))
      unit = ctx.vm.pytd_for_types({"v": var})
      ks = [k for k in unit.constants if k.name == "v"]
      item["top"] = sx(ks[0].type) if len(ks) == 1 else "(other %s)" % pytd_utils.Print(unit)[:80]
    except Exception as e:  # pylint: disable=broad-except
      item["exception"] = repr(e)[:200]
    res.append(item)
  return res


# ------------------------------------------------------------------------------------------ stages
def _pool():
  common.ensure_ext()
  ctx = mp.get_context("fork")
  return ctx.Pool(NWORKERS, initializer=_init)


def dedupe_sx(s):
  """bindings: the real Variable merges identical (cached) values, the model keeps repeats; compare as the list
  of first occurrences"""
  e = parse_sx(s)

  def dd(x):
    if isinstance(x, list) and x and x[0] in ("pinst", "tup"):
      k = 3 if x[0] == "pinst" else 1
      return x[:k] + [var(v) for v in x[k:]]
    return x

  def var(v):
    out = []
    for y in v:
      y = dd(y)
      if y not in out:
        out.append(y)
    return out
  return repr(var(e))


def k2(res, rng, tier, pool, drv):
  n = 1500 if tier == "quick" else 9000
  descs = [gen_type(rng, rng.choice([1, 2, 2, 3, 3, 4])) for _ in range(n)]
  # hand-picked corners first
  corners = [("u", (("n", "int"), ("A",))), ("u", (("A",), ("n", "NoneType"))), ("t", ()), ("g", "list", (("N",),)),
             ("ty", ("A",)), ("ty", ("n", "a.C.N")), ("bare", "list"), ("bare", "dict"), ("n", "type"),
             ("u", (("g", "list", (("u", (("n", "int"), ("n", "str"))),)), ("g", "list", (("u", (("n", "str"), ("n", "int"))),)))),
             ("u", (("n", "NoneType"), ("n", "int"))), ("u", (("n", "int"),)), ("u", (("N",), ("n", "int"))),
             ("g", "dict", (("n", "str"), ("u", (("n", "NoneType"), ("t", (("n", "a.C"), ("n", "NoneType"))))))),
             ("u", (("ty", ("n", "a.C")), ("ty", ("n", "a.D")))), ("u", (("t", (("n", "int"),)), ("t", (("n", "str"),))))]
  descs = corners + descs
  batches = [descs[i:i + 60] for i in range(0, len(descs), 60)]
  outs = pool.map(k2_task, batches)
  items = [it for b in outs for it in b]
  lines = ["T " + it["sx"] for it in items]
  mod = drv.batch(lines)
  dis = []
  frag = emitted = fixed = changed = 0
  distinct = set()
  for it, m in zip(items, mod):
    parts = [p.strip() for p in m.split("|")]
    fr, em = parts[0].split()
    if fr != "1":
      continue
    frag += 1
    emitted += em == "1"
    fixed += parts[6] == "1"
    if "exception" in it:
      dis.append({"stage": "K2", "type": it["txt"], "sx": it["sx"], "real": it["exception"], "model": m})
      continue
    key = it["sx"]
    if key not in distinct:
      distinct.add(key)
      if canon_sx(parse_sx(parts[3])) != canon_sx(parse_sx(it["sx"])):
        changed += 1
    bad = []
    if dedupe_sx(parts[1]) != dedupe_sx(it["abs"]):
      bad.append("bindings")
    if parts[2] != it["in"]:
      bad.append("nested")
    if parts[4] != it["top"] or parts[3] != it["top"]:
      bad.append("module-level")
    if bad:
      dis.append({"stage": "K2", "what": bad, "type": it["txt"], "sx": it["sx"],
                  "real": {"abs": it["abs"], "in": it["in"], "top": it["top"]},
                  "model": {"abs": parts[1], "in": parts[2], "out": parts[3], "reexport": parts[4]}})
  res.cov["k2"] = {"types": len(items), "in_fragment": frag, "emitted_shape": emitted,
                   "fixed_points_of_reexport": fixed, "distinct_in_fragment": len(distinct),
                   "distinct_changed_by_reexport": changed}
  return dis, len(distinct), items[:2]


def eval_pairs(pool, programs):
  return pool.map(pair_task, list(enumerate(programs)), chunksize=1)


def model_check_all(cases, drv):
  """model prediction vs the real downstream stub, per case and transport (two driver invocations in all)"""
  jobs = []    # (case, transport, dn)
  lines = []
  for case in cases:
    if "exception" in case or case["up_errors"]:
      continue
    for tr in TRANSPORTS:
      dn = case["down"].get(tr)
      if not dn or "exception" in dn:
        continue
      jobs.append((case, tr, dn))
      lines += ["U " + dn["unit"], "D"] + ["R " + r["read"] for r in case["reads"]] + \
               ["V " + r["read"] for r in case["reads"]]
  out = drv.batch(lines) if lines else []
  pos = 0
  chunks = []
  tlines = []
  for case, tr, dn in jobs:
    n = len(case["reads"])
    o = out[pos:pos + 2 + 2 * n]
    pos += 2 + 2 * n
    chunks.append(o)
    tlines += ["T " + (ro.split("|")[0].strip() if ro.strip() != "-" else "A") for ro in o[2:2 + n]]
  tout = drv.batch(tlines) if tlines else []
  tpos = 0
  per_case = {}
  stats = {"reads": 0, "emitted": 0, "nonscalar": 0, "outside_fragment": 0}
  for (case, tr, dn), o in zip(jobs, chunks):
    dis = per_case.setdefault(case["idx"], [])
    n = len(case["reads"])
    tl = tout[tpos:tpos + n]
    tpos += n
    if not o[0].startswith("ok"):
      dis.append({"stage": "K1", "transport": tr, "what": "driver rejected unit", "unit": dn["unit"][:300]})
      continue
    for r, ro, vo, tline in zip(case["reads"], o[2:2 + n], o[2 + n:2 + 2 * n], tl):
      stats["reads"] += 1
      real = dn["types"].get(r["name"])
      if ro.strip() == "-":
        dis.append({"stage": "K1", "transport": tr, "what": "model cannot resolve the read", "read": r["read"],
                    "expr": r["expr"]})
        continue
      flags = tline.split("|")[0].split()
      if flags[0] != "1":
        stats["outside_fragment"] += 1     # e.g. type[Union[A, B]]: not claimed by the model, oracle only
        continue
      stats["emitted"] += flags[1] == "1"
      decl, re_ = [p.strip() for p in ro.split("|")]
      pred = canon_sx(parse_sx(re_))
      if pred[0] in ("g", "t", "u"):
        stats["nonscalar"] += 1
      if real is None:
        dis.append({"stage": "K1", "transport": tr, "what": "downstream name is not a constant", "read": r["expr"],
                    "is": dn["others"].get(r["name"], "missing"), "model": re_})
        continue
      if pred != real[0]:
        dis.append({"stage": "K1", "transport": tr, "what": "model prediction differs", "read": r["expr"],
                    "declared": decl, "model": re_, "real": real[1]})
      vparts = [p.strip() for p in vo.split("|")]
      if len(vparts) == 3 and vparts[2] != "1" and flags[1] == "1":
        dis.append({"stage": "K1", "transport": tr, "what": "model: text and pickle re-exports differ",
                    "read": r["expr"], "text": vparts[0], "pickle": vparts[1]})
  return per_case, stats


def model_check(case, drv):
  per_case, stats = model_check_all([case], drv)
  return per_case.get(case["idx"], []), stats


# ------------------------------------------------------------------------------------------ K3: reveal_type oracle
def _split_top(t):
  out, depth, cur = [], 0, ""
  for ch in t:
    if ch == "[":
      depth += 1
    if ch == "]":
      depth -= 1
    if ch == "," and depth == 0:
      out.append(cur.strip())
      cur = ""
    else:
      cur += ch
  if cur.strip():
    out.append(cur.strip())
  return out


def norm_reveal(t):
  """Canonical form of a reveal_type string: Optional -> Union, unions flattened, sorted, and reduced by the PEP 484
  promotions the stub optimiser applies to what it writes (bool < int < float < complex): the in-module view keeps
  `Union[bool, int]` where the stub says `int`."""
  import re
  if t is None:
    return None
  t = t.strip()
  m = re.match(r"^(\w[\w.]*)\[(.*)\]$", t)
  if not m:
    return t
  head, args = m.group(1), [norm_reveal(a) for a in _split_top(m.group(2))]
  if head == "Optional":
    head, args = "Union", args + ["None"]
  if head == "Union":
    flat = []
    for a in args:
      mm = re.match(r"^Union\[(.*)\]$", a)
      flat += _split_top(mm.group(1)) if mm else [a]
    st = set(flat)
    if st & {"int", "float", "complex"}:
      st.discard("bool")
    if st & {"float", "complex"}:
      st.discard("int")
    if "complex" in st:
      st.discard("float")
    if len(st) == 1:
      return next(iter(st))
    return "Union[%s]" % ", ".join(sorted(st))
  return "%s[%s]" % (head, ", ".join(args))


def _reveal(src, opts):
  io = _S["io"]
  ret, _ = io.generate_pyi(src, opts)
  out, others = {}, []
  for e in ret.context.errorlog.unique_sorted_errors():
    if e.name == "reveal-type":
      out[e.line] = str(e.message)
    else:
      others.append([e.name, e.line, str(e.message)[:120]])
  return out, others


def chain_program(rng):
  """(dep source, upstream source): the upstream module `a` imports the analysed module `dep` and mentions its
  top-level and nested classes (values, call results, containers, base classes); it also binds classes to second
  names (some of which are string suffixes of the class name)."""
  gd = Gen(rng)
  ditems = [["_L = [0, 0, 0]"]]
  for i in range(rng.randrange(1, 3)):
    ditems.append(gd.klass("D%d" % i, "D%d" % i, "", 1))
  ditems.append(["dx = %s" % gd.value(1)])
  dsrc = program_src(ditems)
  dclasses = list(gd.classes)
  ga = Gen(rng)
  items = ga.program()
  items.insert(1, ["import dep"])
  top = [c for c in dclasses if "." not in c]
  k = 0
  for c in dclasses[:3]:
    r = rng.random()
    if r < 0.3:
      items.append(["dv%d = dep.%s()" % (k, c)])
    elif r < 0.55:
      items.append(["def dmk%d():" % k, "  return dep.%s()" % c])
    elif r < 0.75:
      items.append(["dl%d = [dep.%s(), dep.%s()]" % (k, c, c)])
    else:
      items.append(["dt%d = (dep.%s, 1)" % (k, c)])
    k += 1
  if top and rng.random() < 0.7:
    items.append(["class Sub%s(dep.%s):" % (top[0], top[0]), "  sub_attr = 1"])
  own = [c for c in ga.classes if "." not in c]
  for j, c in enumerate(own[:2]):
    # `Base<C>`-style class with `<C>`-style alias: the alias name is a suffix of the class name
    items.append(["class My%s(%s):" % (c, c), "  my_attr = %s" % ga.scalar()])
    items.append(["Al%s = My%s" % (c, c)] if rng.random() < 0.5 else ["y%s = My%s" % (c, c)])
    items.append(["%sx = My%s" % (c, c)])
  return dsrc, program_src(items)


def chain_family():
  """deterministic (dep source, upstream source) pairs for K3: (a) classes and methods of the upstream module under the
  decorators a stub can carry (typing.final in its spellings, dataclass, property, staticmethod, classmethod), read
  through every transport; (b) container literals around pytype's large-literal threshold (15 entries) whose entries
  are themselves parameterised values of one class with different contents."""
  dep = "_L = [0, 0, 0]\nclass D0:\n  da = 1\ndx = 1\n"
  out = []
  # (a)  (dataclasses / typing_extensions have no stub in the sandbox's empty typeshed: not usable here)
  for imp, deco in (("from typing import final", "@final"), ("import typing", "@typing.final"),
                    ("import typing as t", "@t.final"), ("from typing import final as fin", "@fin")):
    a = ("%s\nimport dep\n%s\nclass Lexer:\n"
         "  def __init__(self, src):\n    self.ia0 = src\n    self.ia1 = len(src)\n"
         "  def tokens(self):\n    return self.ia0.split()\n"
         "  def first(self):\n    return (self.ia0, self.ia1)\n"
         "class Plain:\n  pa = [1]\n  def mk(self):\n    return Lexer('q')\n"
         "%s\nclass Leaf(Plain):\n  la = (1, 's')\n"
         "lx = Lexer('q')\ndef mk():\n  return Lexer('w')\npairs = [(Lexer('a'), 1)]\nlf = Leaf()\n" % (imp, deco, deco))
    out.append((dep, a))
  a = ("from typing import final\nimport dep\nclass M:\n  def __init__(self):\n    self.ia0 = {'k': 1.5}\n"
       "  @final\n  def fin(self):\n    return [self.ia0]\n"
       "  @staticmethod\n  def st(p0=1):\n    return {p0: None}\n"
       "  @classmethod\n  def cl(cls):\n    return cls()\n"
       "  @final\n  @classmethod\n  def fcl(cls, p0='s'):\n    return (cls(), p0)\n"
       "m = M()\nms = M.st()\nmc = M.cl()\nmf = m.fin()\nmg = M.fcl()\n")
  out.append((dep, a))
  # (b)
  def entries(n, mk):
    return ", ".join(mk(i) for i in range(n))
  for n in (14, 15, 16, 17, 24):
    a = ("import dep\n"
         "LIMITS = {%s}\n" % entries(n, lambda i: "'k%d': %s" % (i, "[%d, %d]" % (i, i + 1) if i % 3 else "['fast', 'safe']")) +
         "ROWS = [%s]\n" % entries(n, lambda i: "(%d, 's')" % i if i % 4 else "(None, 2.5)") +
         "OPTS = [%s]\n" % entries(n, lambda i: "{%d: 's'}" % i if i % 5 else "{'x': None}") +
         "NEST = (%s,)\n" % entries(n, lambda i: "[%d]" % i if i % 2 else "['s']") +
         "SETS = [%s]\n" % entries(n, lambda i: "{%d}" % i if i % 3 else "{'e', None}") +
         "FLAT = [%s]\n" % entries(n, lambda i: str(i) if i % 6 else "'s'") +
         "def which():\n  return 'k1'\n"
         "class Cfg:\n  table = {%s}\n" % entries(n, lambda i: "%d: [%s]" % (i, "1.5" if i % 2 else "b'b'")) +
         "  def __init__(self):\n    self.ia0 = [%s]\n" % entries(n, lambda i: "[dep.D0()]" if i % 2 else "[None]"))
    out.append((dep, a))
  # (c) containers that are added to after their creation (displays mixing unpacking and items, update / extend / +=):
  # what the upstream analysis sees for them in the module must be what the stub says (defect repaired by 23d3aba)
  a = ("import dep\ndef g():\n  return 3\ndef h():\n  return 's'\n"
       "d1 = {1: g()}\nd2 = {'k': 1.5}\nl1 = [g()]\nl2 = [h(), None]\n"
       "w1 = {**d1, 'a': g()}\nw2 = {**d2, h(): l1}\nw3 = {b'b': None, **d1, 'a': h()}\nw4 = {**d1, **d2}\n"
       "u1 = [g(), *l2]\nu2 = [*l1, h()]\nu3 = (g(), *l2)\nu4 = {g(), *l2}\n"
       "v1 = {1: g()}\nv1.update({'a': h()})\nv2 = {1: g()}\nv2.update(a=1.5)\nv3 = [g()]\nv3.extend(l2)\n"
       "v4 = [g()]\nv4 += l2\nv5 = {**d1}\nv5.update(d2)\n"
       "class Box:\n  items = {**d1, 'z': h()}\n  def __init__(self):\n    self.ia0 = [g(), *l2]\n"
       "  def all(self):\n    return {**self.items, 'n': dep.D0()}\n")
  out.append((dep, a))
  # (d) name resolution in the stub reader: a nested class that has the same simple name as a module-level class and
  # mentions that namesake (and the other way round), nested classes referring to themselves, to their outer class and to
  # siblings, a module-level constant named like a nested class
  a = ("import dep\nclass Item:\n  def __init__(self):\n    self.ia0 = 1.5\n  def tag(self):\n    return 's'\n"
       "class Basket:\n  class Item:\n    def __init__(self):\n      self.ia0 = Item()\n      self.ia1 = [Basket.Item]\n"
       "    def up(self):\n      return Basket()\n    def me(self):\n      return self\n"
       "  class Other:\n    def sib(self):\n      return Basket.Item()\n    def top(self):\n      return Item()\n"
       "  def __init__(self):\n    self.ia0 = Basket.Item()\n    self.ia1 = Item()\n"
       "  def both(self):\n    return (Item(), Basket.Item(), Basket.Other())\n"
       "class Outer2:\n  class Basket:\n    def mk(self):\n      return (Basket(), Item())\n"
       "b = Basket()\nholder = Basket.Item()\norigin = holder.ia0\nnested = b.ia0\ntop = b.ia1\n"
       "def mk():\n  return Basket.Item().ia0\ndef mk2():\n  return Outer2.Basket().mk()\n")
  out.append((dep, a))
  # (e) several module-level names, function results and attributes with the SAME container type: the downstream
  # module mutates one of them (chain_task's second pass) and reads the others
  a = ("import dep\nprimes = [2, 3, 5]\nevens = [2, 4]\nratio = {'a': 1.5}\nscale = {'b': 2.5}\nseen = {1}\nfresh = {2}\n"
       "def odds():\n  return [1, 3]\ndef table():\n  return {'k': 0.5}\n"
       "class Cfg:\n  names = [7]\n  def __init__(self):\n    self.ia0 = [1]\n    self.ia1 = {'z': 1.5}\n"
       "cfg = Cfg()\npair = ([1], {'q': 2.5})\n")
  out.append((dep, a))
  return out


def chain_task(args):
  """K3: the property read literally.  Upstream reveal_type (what A's analysis infers) against downstream reveal_type
  of the same expression through A's emitted stub, per transport; dependency chain dep <- a <- b."""
  import re
  idx, dsrc, asrc = args
  io, config = _S["io"], _S["config"]
  d = os.path.join(RUN, "p%d" % os.getpid(), "k%d" % idx)
  out = {"idx": idx, "dep": dsrc, "src": asrc, "bad": [], "reads": 0, "skipped": None}
  try:
    os.makedirs(d, exist_ok=True)
    # dep
    o = config.Options.create(python_version=PYVER, module_name="dep")
    ret, pyi = io.generate_pyi(dsrc, o)
    if _errs(ret):
      out["skipped"] = "dep has errors"
      return out
    open(os.path.join(d, "dep.pyi"), "w").write(pyi)
    o2 = config.Options.create(python_version=PYVER, module_name="dep", output=os.path.join(d, "dep.pickled"))
    o2.tweak(input="dep.py")
    io.write_pickle(ret.ast, o2, ret.context.loader)
    # a
    o = config.Options.create(python_version=PYVER, module_name="a", pythonpath=d)
    ret, apyi = io.generate_pyi(asrc, o)
    if _errs(ret):
      out["skipped"] = "upstream has errors"
      return out
    open(os.path.join(d, "a.pyi"), "w").write(apyi)
    o2 = config.Options.create(python_version=PYVER, module_name="a", pythonpath=d, output=os.path.join(d, "a.pickled"))
    o2.tweak(input="a.py")
    io.write_pickle(ret.ast, o2, ret.context.loader)
    out["pyi"] = apyi
    _, reads = derive_reads(apyi)
    exprs = [r["expr"] for r in reads if not r["expr"].startswith("from ")]
    # aliases of classes are `Alias: type[C]` constants or aliases in the stub: read them all
    parser = _S["parser"]
    ast = parser.parse_string(apyi, filename="a.pyi", name="a", options=parser.PyiOptions(python_version=PYVER))
    for al in ast.aliases:
      n = al.name[2:] if al.name.startswith("a.") else al.name
      if not n.startswith("_") and "." not in n and n != "dep":
        exprs += ["a.%s" % n]
    exprs = list(dict.fromkeys(exprs))
    n0 = asrc.count("\n")
    up, _ = _reveal(asrc + "".join("reveal_type(%s)\n" % e[2:] for e in exprs),
                    config.Options.create(python_version=PYVER, module_name="a", pythonpath=d))
    bsrc = "import a\n" + "".join("reveal_type(%s)\n" % e for e in exprs)
    for tr in TRANSPORTS:
      if tr == "path":
        opts = config.Options.create(python_version=PYVER, module_name="b", pythonpath=d)
      elif tr == "imap":
        opts = config.Options.create(python_version=PYVER, module_name="b", pythonpath="",
                                     imports_map_items=[("a", os.path.join(d, "a.pyi")), ("dep", os.path.join(d, "dep.pyi"))])
      else:
        opts = config.Options.create(python_version=PYVER, module_name="b", pythonpath="", use_pickled_files=True,
                                     imports_map_items=[("a", os.path.join(d, "a.pickled")),
                                                        ("dep", os.path.join(d, "dep.pickled"))])
      try:
        dn, others = _reveal(bsrc, opts)
      except Exception as e:  # pylint: disable=broad-except
        out["bad"].append({"transport": tr, "what": "downstream analysis raises", "exception": repr(e)[:300]})
        continue
      if others:
        out["bad"].append({"transport": tr, "what": "spurious downstream errors", "errors": others[:4]})
      for j, e in enumerate(exprs):
        u = norm_reveal(up.get(n0 + 1 + j))
        w = dn.get(2 + j)
        w = norm_reveal(None if w is None else re.sub(r"\ba\.", "", w))
        if u is None:
          continue
        if u == "Any" and re.match(r"a\.[\w.]+\.ia\d+$", e):
          continue     # an instance attribute read on the class object: an attribute-error upstream, a constant in the stub
        out["reads"] += 1
        if u != w:
          out["bad"].append({"transport": tr, "expr": e, "upstream_infers": u, "downstream_sees": w})
    # the same reads after the downstream module has *mutated* one imported container of each kind: every other name
    # must still have the type A's analysis inferred (imported values are not shared between names)
    muts, mutated = [], set()
    for kind, stmt in (("list[", "%s.append(Mk_())"), ("dict[", "%s['zz_'] = Mk_()"), ("set[", "%s.add(Mk_())")):
      for j, e in enumerate(exprs):
        u = norm_reveal(up.get(n0 + 1 + j))
        if u and u.startswith(kind) and re.match(r"a\.\w+$", e):
          muts.append(stmt % e)
          mutated.add(e)
          break
    if muts:
      head = ["import a", "class Mk_: pass"] + muts
      bsrc = "\n".join(head) + "\n" + "".join("reveal_type(%s)\n" % e for e in exprs)
      for tr in ("path", "pickle"):
        if tr == "path":
          opts = config.Options.create(python_version=PYVER, module_name="b", pythonpath=d)
        else:
          opts = config.Options.create(python_version=PYVER, module_name="b", pythonpath="", use_pickled_files=True,
                                       imports_map_items=[("a", os.path.join(d, "a.pickled")),
                                                          ("dep", os.path.join(d, "dep.pickled"))])
        try:
          dn, _ = _reveal(bsrc, opts)
        except Exception as e:  # pylint: disable=broad-except
          out["bad"].append({"transport": tr + "+mutation", "what": "downstream analysis raises", "exception": repr(e)[:300]})
          continue
        for j, e in enumerate(exprs):
          if e in mutated:
            continue
          u = norm_reveal(up.get(n0 + 1 + j))
          w = dn.get(len(head) + 1 + j)
          w = norm_reveal(None if w is None else re.sub(r"\ba\.", "", w))
          if u is None or (u == "Any" and re.match(r"a\.[\w.]+\.ia\d+$", e)):
            continue
          out["reads"] += 1
          out["reads_after_mutation"] = out.get("reads_after_mutation", 0) + 1
          if u != w:
            out["bad"].append({"transport": tr + "+mutation", "expr": e, "upstream_infers": u, "downstream_sees": w,
                               "downstream_mutated_first": muts})
  except Exception as e:  # pylint: disable=broad-except
    out["exception"] = repr(e)
    out["trace"] = traceback.format_exc()[-1500:]
  finally:
    shutil.rmtree(d, ignore_errors=True)
  return out


def correspond(res, rng, tier):
  prepare()
  drv = common.ensure_driver("drv_c06")
  t0 = time.time()
  disagreements = []
  with _pool() as pool:
    d2, n2, s2 = k2(res, rng, tier, pool, drv)
    disagreements += d2
    t1 = time.time()
    npairs = 110 if tier == "quick" else 700
    programs = [Gen(rng).program() for _ in range(npairs)]
    cases = eval_pairs(pool, [program_src(p) for p in programs])
    nchain = 48 if tier == "quick" else 400
    fam = chain_family()
    chains = pool.map(chain_task, [(i,) + cp for i, cp in enumerate(fam + [chain_program(rng) for _ in range(nchain)])],
                      chunksize=1)
  k3 = {"chains": len(chains), "family_chains": len(fam), "skipped": 0, "reads_compared": 0, "failing_chains": 0}
  for c in chains:
    if c.get("skipped"):
      k3["skipped"] += 1
      continue
    if "exception" in c:
      disagreements.append({"stage": "K3", "what": "analysis raises", "dep": c["dep"], "src": c["src"],
                            "exception": c["exception"], "trace": c.get("trace")})
      continue
    k3["reads_compared"] += c["reads"]
    if c["bad"]:
      k3["failing_chains"] += 1
      disagreements.append({"stage": "K3-oracle", "what": "downstream type differs from what the upstream analysis infers",
                            "failures": c["bad"][:4], "dep": c["dep"], "src": c["src"], "upstream_stub": c.get("pyi")})
  res.cov["k3_reveal_chain"] = k3
  t2 = time.time()
  nreads = 0
  distinct = set()
  oracle_bad = []
  up_err = 0
  kinds = {"const": 0, "call": 0, "cattr": 0, "iattr": 0, "mcall": 0, "cref": 0}
  for i, (case, prog) in enumerate(zip(cases, programs)):
    case["idx"] = i
    case["items"] = prog
  per_case, stats = model_check_all(cases, drv)
  for case, prog in zip(cases, programs):
    if "exception" in case:
      disagreements.append({"stage": "K1", "what": "upstream crash", "src": case["src"], "exception": case["exception"],
                            "trace": case.get("trace"), "items": prog})
      continue
    if case["up_errors"]:
      up_err += 1
      continue
    nreads += len(case["reads"])
    for r in case["reads"]:
      kinds[r["read"][1:].split()[0]] += 1
      if r["decl"][0] in ("g", "t", "u"):
        distinct.add(repr(r["decl"]))
    for x in per_case.get(case["idx"], []):
      x["src"] = case["src"]
      x["items"] = prog
      disagreements.append(x)
    fs = oracle_failures(case)
    if fs:
      oracle_bad.append({"stage": "K1-oracle", "what": "property oracle fails", "failures": fs[:4],
                         "src": case["src"], "items": prog})
  disagreements += oracle_bad
  res.cov["evaluations"] = res.cov["k2"]["types"] + len(cases) * len(TRANSPORTS)
  res.cov["distinct_nontrivial"] = n2 + len(distinct)
  res.cov["exhaustive"] = False
  res.cov["rule"] = (
      "K2: generated pytd types (depth<=4 over Any/nothing/11 class names incl. nested a.C.N/bare generic classes/"
      "type[..]/list,set,frozenset,dict,tuple[X,...]/heterogeneous tuples/unions incl. Any, nothing, None-first "
      "and one-member unions) loaded as constants of a module `a`, then convert.constant_to_var -> "
      "output.value_to_pytd_type/JoinTypes and tracer_vm.pytd_for_types called directly; bindings, nested and "
      "module-level results compared exactly with the driver for every type the driver reports InFragment; "
      "distinct = distinct s-expressions in the fragment. "
      "K1: seeded random loop-free upstream modules (constants from branches, functions, classes with class/instance "
      "attributes, methods, nested classes, instances and class objects as values) analysed by io.generate_pyi; "
      "downstream module derived from the upstream stub (one read per public constant x2, function call, class, "
      "class attribute x2, method call); 3 transports; each downstream stub type compared order-insensitively with "
      "(a) the driver's reexport of the type declared in the *loaded* upstream unit, (b) the upstream stub type "
      "(property oracle, on the re-parsed stubs), (c) the other transports; error logs must be empty; "
      "non-trivial = declared type is a container/tuple/union, distinct = distinct canonical declared types. "
      "K3 (the property read literally): chains dep <- a <- b; reveal_type of every public read inside a's own analysis "
      "against reveal_type of the same expression in b through a's emitted stub, per transport (dep is handed over in "
      "the same transport), class aliases included; strings compared after flattening unions and the PEP 484 numeric "
      "promotions; b's error log must be empty.")
  res.cov["distribution"] = {
      "k2": res.cov.pop("k2"), "pairs": len(cases), "pairs_with_upstream_errors_skipped": up_err,
      "transports": TRANSPORTS, "reads_total": nreads, "reads_by_kind": kinds,
      "model_comparisons": stats["reads"], "nonscalar_predictions": stats["nonscalar"],
      "declared_types_of_emitted_shape": stats["emitted"], "reads_outside_fragment_oracle_only": stats["outside_fragment"],
      "distinct_nontrivial_declared_types": len(distinct),
      "cpu_note": "K2 %.0fs, K1 real %.0fs, model %.0fs wall with %d workers" % (t1 - t0, t2 - t1, time.time() - t2, NWORKERS),
  }
  ok = [c for c in cases if "reads" in c and c["reads"] and not c["up_errors"]]
  if ok:
    c = ok[0]
    res.add_samples([{"upstream": c["src"], "upstream_stub": c["pyi"], "downstream": c["bsrc"],
                      "downstream_stub_pickle": c["down"]["pickle"].get("pyi")}])
  res.add_samples([{"k2_type": s["txt"], "bindings": s.get("abs"), "module_level": s.get("top")} for s in s2])
  _cleanup()
  return disagreements


def _cleanup():
  shutil.rmtree(RUN, ignore_errors=True)


def witnesses(res):
  known, fixed = common.known_findings("C06")
  if not known and not fixed:
    res.cov["witnesses_replayed"] = 0
    return
  prepare()
  n = 0
  with _pool() as pool:
    for e in known + fixed:
      src = e["witness"]["upstream"]
      case = pool.map(pair_task, [(0, src)])[0]
      fs = oracle_failures(case)
      n += 1
      if e in known:
        if fs:
          res.known_lines.append("%s: %s" % (e["id"], e["what"]))
      elif fs:
        res.violation("fixed-" + e["id"], {"property": "C06", "kind": "fixed-witness-fails-again", "id": e["id"],
                                            "failures": fs[:4], "upstream": src})
  res.cov["witnesses_replayed"] = n
  _cleanup()


def is_known(fs):
  """failures that are exactly a characterised known finding (none so far)"""
  return False


def search(res, rng, disagreements, pfail):
  """S: the property's own oracle on the real code only; shrink the upstream program by statement removal."""
  prepare()
  found = []
  cands = []
  for d in disagreements:
    if d.get("items"):
      cands.append(d["items"])
    elif d.get("src"):
      cands.append([[l] for l in d["src"].split("\n") if l])   # coarse items; shrinking keeps it parsable or not
  t0 = time.time()
  budget = 150 if common.tier() == "quick" else 600
  with _pool() as pool:
    fresh = [Gen(rng).program() for _ in range(48)]
    progs = [c for c in cands if isinstance(c, list)][:16] + fresh
    cases = eval_pairs(pool, [program_src(p) for p in progs])
    failing = []
    for p, c in zip(progs, cases):
      fs = oracle_failures(c)
      if fs and not is_known(fs):
        failing.append((p, fs))
    failing.sort(key=lambda pf: len(program_src(pf[0])))
    for p, fs in failing[:2]:
      kind = fs[0]["kind"]

      def fails(items, kind=kind):
        c = pool.map(pair_task, [(0, program_src(items))])[0]
        return any(f["kind"] == kind for f in oracle_failures(c))
      small = common.ddmin(p, fails, budget_s=max(10.0, min(60.0, budget - (time.time() - t0))),
                           keep=lambda it: it and it[0].startswith("_L"))
      c = pool.map(pair_task, [(0, program_src(small))])[0]
      found.append({"upstream": program_src(small), "upstream_stub": c.get("pyi"), "downstream": c.get("bsrc"),
                    "failures": oracle_failures(c)[:6],
                    "downstream_stubs": {tr: (c.get("down", {}).get(tr) or {}).get("pyi") for tr in TRANSPORTS}})
    # K3 chains: a disagreement of the reveal_type oracle is already a failing input of the property; re-confirm it in
    # a fresh worker and shrink the upstream module by line groups (dep is kept)
    for d in [x for x in disagreements if x.get("stage") == "K3-oracle"][:2]:
      if len(found) >= 3:
        break
      dsrc, asrc = d["dep"], d["src"]
      c = pool.map(chain_task, [(0, dsrc, asrc)])[0]
      if not c.get("bad"):
        continue
      sig = sorted({(b.get("transport"), b.get("what") or "type") for b in c["bad"]})

      def fails_chain(lines, dsrc=dsrc, sig=sig):
        c2 = pool.map(chain_task, [(0, dsrc, "\n".join(lines) + "\n")])[0]
        return bool(c2.get("bad")) and not c2.get("skipped") and \
            sorted({(b.get("transport"), b.get("what") or "type") for b in c2["bad"]}) == sig
      # top-level statements as units (a statement = a line at column 0 plus its indented continuation)
      units, cur = [], []
      for l in asrc.split("\n"):
        if l and not l.startswith(" ") and cur:
          units.append("\n".join(cur))
          cur = []
        if l:
          cur.append(l)
      if cur:
        units.append("\n".join(cur))
      small = common.ddmin(units, lambda us: fails_chain([l for u in us for l in u.split("\n")]),
                           budget_s=max(10.0, min(60.0, budget - (time.time() - t0))),
                           keep=lambda u: u.startswith(("_L", "import dep")))
      ssrc = "\n".join(small) + "\n"
      c = pool.map(chain_task, [(0, dsrc, ssrc)])[0]
      found.append({"dep_module": dsrc, "upstream": ssrc, "upstream_stub": c.get("pyi"),
                    "failures": (c.get("bad") or d["failures"])[:6],
                    "what": "reveal_type inside the upstream analysis differs from reveal_type of the same expression "
                            "downstream through the emitted stub"})
  _cleanup()
  return found


def main():
  prepare()
  os.makedirs(WORK, exist_ok=True)
  return common.run_check(
      "C06", REQUIRED, correspond, witnesses, search, prepare=prepare,
      trusted=["hand-written model of convert.py (pytd_cls_to_instance_var/_constant_to_value), output.py "
               "(value_to_pytd_type, _value_to_parameter_types, MakeClassOrContainerType), pytd_utils.JoinTypes and "
               "tracer_vm.pytd_for_types on the fragment; tied by direct differential runs (K2) and module pairs (K1)",
               "the two transports are theorem parameters: text = what C05 proves about print->parse (normText on "
               "every type), pickle = what C12 proves (decode . encode = id); their models are not imported",
               "that the downstream VM asks the loader for the modelled read (a.x, a.f(), a.C.x, a.C().x, "
               "a.C().m()) is checked by K1 only"],
      assumptions=["upstream modules are loop-free and import only builtins; an initialised but empty typeshed is "
                   "used (TYPESHED_HOME) because /repo/typeshed is empty in the sandbox",
                   "order-insensitive structural comparison of stub types (union members as sets), class names "
                   "qualified with the module name"])


if __name__ == "__main__":
  sys.exit(main())
