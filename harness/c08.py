"""C08 — solver answers do not depend on what was asked or built before (DESIGN.md §5 C08).

P: lean/PytypeModel/Props/C08.lean.
K: one long-lived real cfg.Program and the Lean `PState` (drv_c08) driven by the same operation sequence
   (~60 % mutations through every Python entry point, ~40 % queries); after EVERY query the real answer
   must equal the model's warm answer, and `query stats` compares the number of solvers created so far
   and the size of the latest solver's memo (Program.calculate_metrics) — this ties the memo, not just
   the answers.  Exhaustive short sequences over a small alphabet first, then random histories.
W: the two repaired witnesses must pass the property's own oracle (fresh replica); the listed cyclic
   witnesses are replayed and reported as KNOWN-FINDING while they still fail.
S: (only when P or K broke) fresh replica = the property's oracle, at every query of the disagreeing
   histories, their shrinks and fresh random histories; shrunk with common.ddmin.  A failure on a
   CYCLIC history whose live and fresh answers are both reproduced by the model is the characterised
   known finding under another input and is not reported; everything else is.
"""
import itertools
import random
import sys
import time

from harness import common, tg

REQUIRED = ["mutation_resets_memo", "nonquery_keeps_no_solver", "query_preserves_graph", "replica_same_graph",
            "fresh_is_cold", "query_fresh_partial", "query_fresh_after_mutation", "query_fresh_solverfree",
            "query_fresh_acyclic", "query_fresh_acyclic_history", "repeated_query_stable", "cyclic_witness", "query_fresh_not_full",
            "invalidate_sites_as_modelled", "model_invalidation_as_specified"]

WORKERS = 14
SOLVER_Q = ("has", "visible", "filter")

PRELUDE = ["node", "connect_new 0", "connect_new 1", "var", "bind 0 a [] 0", "var", "bind 1 b [0] 1"]
ALPHABET = ["connect 2 0", "connect 0 2", "setcond 1 0", "setcond 2 1", "origin 0 2 []", "bind 0 c [] 1",
            "paste_new_data 1 0 b", "query has 2 [0,1]", "query visible 0 2", "query visible 1 2",
            "query filter 0 2 1", "query has 1 [0]"]


def exhaustive_histories(max_len):
  pre = [tg.parse_op(t) for t in PRELUDE]
  alpha = [tg.parse_op(t) for t in ALPHABET]
  for n in range(1, max_len + 1):
    for seq in itertools.product(alpha, repeat=n):
      if not any(o[0] == "query" for o in seq):
        continue
      yield pre + list(seq) + [("query", "stats")]


def diamond_family():
  """Deterministic query-ORDER family (no mutation between the questions, one solver): a binding at F, two routes of
  every length 1..3 from F to a join S, optionally one node of the first route carrying a condition that can never
  hold, and one that always holds on the other; the same binding asked at two or three nodes in every order, with
  every query kind.  A fresh replica must give every answer (the path cache and the state memo are shared by the
  questions)."""
  out = []
  for la in (1, 2, 3):
    for lb in (1, 2, 3):
      for cpos in [None] + list(range(la)):
        ops = ["node", "node", "var", "bind 0 never [] 0"]
        nid = 2
        arm_a = []
        prev = 1
        for i in range(la):
          ops.append("connect_new %d%s" % (prev, " 0" if cpos == i else ""))
          arm_a.append(nid)
          prev = nid
          nid += 1
        ops.append("connect_new %d" % prev)
        s_node = nid
        nid += 1
        prev = 1
        for i in range(lb):
          ops.append("connect_new %d" % prev)
          prev = nid
          nid += 1
        ops.append("connect %d %d" % (prev, s_node))
        ops += ["var", "bind 1 g [] 1"]
        asked = arm_a + [s_node]
        orders = [(a, b) for a in asked for b in asked if a != b]
        if len(asked) >= 3:
          orders += [(asked[-1], asked[0], asked[1]), (asked[1], asked[-1], asked[0])]
        for order in orders:
          for kind in ("visible 1 %d", "has %d [1]", "filter 1 %d 1"):
            out.append([tg.parse_op(t) for t in ops] + [tg.parse_op("query " + kind % n) for n in order]
                       + [("query", "stats")])
  return out


def load_corpus():
  """corpus/C08/*.json: minimised histories of past disagreements / witnesses; run first."""
  import glob
  import json
  import os
  out = []
  for f in sorted(glob.glob(os.path.join(common.VERIF, "corpus", "C08", "*.json"))):
    for e in json.load(open(f)):
      ops = [tg.parse_op(t) for t in e["ops"]]
      out.append(ops + [("query", "stats")])
  return out


def random_history(cfg, rng, length):
  """Generates a history against a live real program; returns (ops, real outputs, ranks or None)."""
  real = tg.Real(cfg)
  prof = {"max_nodes": rng.choice([4, 6, 10, 20, 40]), "max_vars": rng.choice([2, 4, 6]),
          "max_bindings": rng.choice([5, 8, 12, 16]), "cyclic": rng.random() < 0.7,
          "conds": rng.random() < 0.7, "labels": rng.choice([2, 3, 5])}
  pq = rng.choice([0.3, 0.4, 0.4, 0.5])
  ops, outs = [], []
  burst = 0
  while len(ops) < length:
    if burst > 0 or rng.random() < pq:
      op = tg.gen_query(rng, real)
      if op is None:
        op = tg.gen_mutation(rng, real, prof)
      burst = max(0, burst - 1)
      if burst == 0 and rng.random() < 0.08:
        burst = rng.randrange(2, 8)        # several queries on one solver
    else:
      op = tg.gen_mutation(rng, real, prof)
    r = real.apply(op)
    ops.append(op)
    if r is not None:
      outs.append(r)
  ops.append(("query", "stats"))
  outs.append(real.apply(ops[-1]))
  ranks = real.addr_ranks() if real.multi_source() else None
  return ops, outs, ranks


def run_real(cfg, ops):
  real = tg.Real(cfg)
  outs = real.run(ops)
  ranks = real.addr_ranks() if real.multi_source() else None
  return outs, ranks


def _stats_of(stats, ops, outs):
  stats["histories"] += 1
  stats["ops"] += len(ops)
  alive = False     # a solver query was answered and no mutating op came since
  both = set()
  warm = 0
  qi = 0
  for op in ops:
    k = op[0] if op[0] != "query" else "query " + op[1]
    stats["by_kind"][k] = stats["by_kind"].get(k, 0) + 1
    if op[0] == "query":
      a = outs[qi]
      qi += 1
      if op[1] in SOLVER_Q:
        if alive:
          warm += 1
        if op[1] in ("has", "visible"):
          both.add(a)
        alive = True
    else:
      alive = False
  stats["queries"] += qi
  stats["warm_queries"] += warm
  if warm and both >= {"0", "1"}:
    stats["nontrivial"] += 1
  sh = tg.history_shape(ops)
  stats["cyclic"] += 1 if sh.cyclic() else 0
  stats["conditioned"] += 1 if sh.conds else 0
  stats["nodes_max"] = max(stats["nodes_max"], sh.nn)


def _k_worker(args):
  seed_, kind, payload = args
  cfg = common.load_pytype()
  drv = common.Driver("drv_c08")
  rng = random.Random(seed_)
  runs = []
  if kind == "cases":
    for ops in payload:
      outs, ranks = run_real(cfg, ops)
      runs.append((ops, outs, ranks))
  else:
    n, length = payload
    for _ in range(n):
      runs.append(random_history(cfg, rng, rng.randrange(20, length + 1)))
  stats = {"histories": 0, "ops": 0, "queries": 0, "warm_queries": 0, "nontrivial": 0, "cyclic": 0,
           "conditioned": 0, "nodes_max": 0, "by_kind": {}, "with_address_ranks": 0}
  lines = []
  for ops, outs, ranks in runs:
    lines += tg.driver_lines(ops, ranks)
    _stats_of(stats, ops, outs)
    stats["with_address_ranks"] += 1 if ranks else 0
  mo = drv.batch(lines)
  dis = []
  pos = 0
  for ops, outs, ranks in runs:
    m = mo[pos:pos + len(outs)]
    pos += len(outs)
    if m != outs:
      qidx = [i for i, o in enumerate(ops) if o[0] == "query"]
      j = next(i for i in range(len(outs)) if i >= len(m) or m[i] != outs[i])
      dis.append({"ops": [tg.op_text(o) for o in ops[:qidx[j] + 1]], "query": tg.op_text(ops[qidx[j]]),
                  "real": outs[j], "model": m[j] if j < len(m) else None, "ranks": ranks})
  sample = None
  if runs:
    ops, outs, _ = runs[0]
    sample = {"ops": [tg.op_text(o) for o in ops][:40], "answers": outs[:12]}
  return stats, dis, sample


def _merge(total, s):
  for k, v in s.items():
    if isinstance(v, dict):
      d = total.setdefault(k, {})
      for kk, vv in v.items():
        d[kk] = d.get(kk, 0) + vv
    elif k.endswith("_max"):
      total[k] = max(total.get(k, 0), v)
    else:
      total[k] = total.get(k, 0) + v


def correspond(res, rng, tier):
  common.load_pytype()
  common.ensure_driver("drv_c08")
  ex_len = 4 if tier == "quick" else 5
  ex = list(exhaustive_histories(ex_len))
  n_rand = 1400 if tier == "quick" else 20000
  tasks = []
  corpus = load_corpus()
  if corpus:
    tasks.append((0, "cases", corpus))
  fam = diamond_family()
  for i in range(0, len(fam), 400):
    tasks.append((0, "cases", fam[i:i + 400]))
  chunk = 1500
  for i in range(0, len(ex), chunk):
    tasks.append((0, "cases", ex[i:i + chunk]))
  per = 50 if tier == "quick" else 200
  for i in range(0, n_rand, per):
    tasks.append((rng.randrange(1 << 30), "random", (min(per, n_rand - i), 200)))
  total, dis, samples = {}, [], []
  for stats, d, sample in tg.parallel(_k_worker, tasks, WORKERS, timeout_s=(600 if tier == "quick" else 3000)):
    _merge(total, stats)
    dis += d
    if sample and len(samples) < 60:
      samples.append(sample)
  res.cov["evaluations"] = total.get("queries", 0)
  res.cov["distinct_nontrivial"] = total.get("nontrivial", 0)
  res.cov["exhaustive"] = False
  res.cov["rule"] = (
      "each evaluation = one query answered by the long-lived real cfg.Program and by the Lean PState after the same "
      "history, compared exactly (answers of HasCombination/IsVisible/Filter/CanHaveCombination/Bindings, and for "
      "`query stats` the number of solvers created so far + memo size of the latest one from calculate_metrics). "
      "Histories: (a) every sequence of length <= %d over a 12-op alphabet (two edges incl. a back edge, two "
      "conditions, origin, rebinding, paste, five queries) after a fixed 3-node prelude, kept when it contains a query; "
      "(b) %d random histories of 20..200 ops generated against the live program (all mutating entry points of cfg.cc, "
      "cyclic and conditioned graphs, query bursts). distinct_nontrivial counts histories (each generated once) that "
      "contain at least one solver query issued on a warm solver (previous op was a solver query) and whose "
      "HasCombination/IsVisible answers include both True and False." % (ex_len, n_rand))
  res.cov["distribution"] = {
      "corpus_histories": len(corpus), "exhaustive_histories": len(ex), "random_histories": n_rand, "histories": total.get("histories", 0),
      "ops": total.get("ops", 0), "queries": total.get("queries", 0), "warm_solver_queries": total.get("warm_queries", 0),
      "cyclic_histories": total.get("cyclic", 0), "conditioned_histories": total.get("conditioned", 0),
      "histories_run_with_measured_address_ranks": total.get("with_address_ranks", 0),
      "nodes_max": total.get("nodes_max", 0), "ops_by_kind": total.get("by_kind", {}),
  }
  res.add_samples(samples[:1] + samples[-2:])
  return dis[:50]


# ------------------------------------------------------------------------------------------------
# the property's oracle: fresh replica
# ------------------------------------------------------------------------------------------------
def fresh_answer(cfg, ops_before, q):
  rep = tg.Real(cfg)
  for o in ops_before:
    if o[0] != "query":
      rep.apply(o)
  a = rep.apply(q)
  return a, rep


def oracle_failures(cfg, ops):
  """[(index, live, fresh)] for every query whose live answer differs from the fresh replica's."""
  live = tg.Real(cfg)
  out = []
  for i, op in enumerate(ops):
    r = live.apply(op)
    if op[0] == "query" and op[1] != "stats" and r not in (None, "bad-op"):
      f, _ = fresh_answer(cfg, ops[:i], op)
      if f != r:
        out.append((i, r, f))
  return out


def reportable(cfg, drv, ops):
  """ops[-1] is a query.  Returns (live, fresh) when the live answer differs from the fresh replica's and
  the difference is not the characterised cyclic finding (cyclic history, model reproduces both)."""
  if not ops or ops[-1][0] != "query" or ops[-1][1] == "stats":
    return None
  live = tg.Real(cfg)
  outs = live.run(ops[:-1])
  a = live.apply(ops[-1])
  if a in (None, "bad-op"):
    return None
  b, rep = fresh_answer(cfg, ops[:-1], ops[-1])
  if a == b:
    return None
  if tg.history_shape(ops).cyclic() and drv is not None:
    try:
      lr = live.addr_ranks() if live.multi_source() else None
      rr = rep.addr_ranks() if rep.multi_source() else None
      ml = drv.batch(tg.driver_lines(ops, lr))[-1]
      mc = drv.batch(tg.driver_lines(tg.replica_ops(ops[:-1]) + [ops[-1]], rr))[-1]
      if ml == a and mc == b:
        return None
    except Exception:
      pass
  return (a, b)


def _graph_sig(real):
  """everything the solver can see, read through the Python API"""
  return (tuple((tuple(m.id for m in n.incoming), n.condition.id if n.condition is not None else None)
                for n in real.nodes),
          tuple((b.variable.id, tuple((o.where.id, tuple(sorted(tuple(sorted(x.id for x in ss)) for ss in o.source_sets)))
                                      for o in b.origins)) for b in real.b))


def mechanism_failure(cfg, ops):
  """Second oracle (theorem mutation_resets_memo on the real program): an operation that changes the graph
  while a solver is alive must drop it, i.e. the next solver query creates a new solver
  (Program.calculate_metrics().solver_metrics grows).  Returns a failure dict or None."""
  real = tg.Real(cfg)
  alive_count = None      # number of solvers when the last solver query returned
  changed_since = None    # description of the first graph change since then
  for i, op in enumerate(ops):
    if op[0] == "query":
      r = real.apply(op)
      if op[1] in SOLVER_Q and r not in (None, "bad-op"):
        n = len(real.p.calculate_metrics().solver_metrics)
        if n == 0:
          continue      # the query did not reach the solver (Filter shortcut)
        if alive_count is not None and changed_since is not None and n == alive_count:
          return {"ops": [tg.op_text(o) for o in ops[:i + 1]],
                  "oracle": "a graph-changing operation must drop the live solver (mutation_resets_memo)",
                  "graph_changed_by": changed_since, "solvers_before": alive_count, "solvers_after": n}
        alive_count, changed_since = n, None
    else:
      before = _graph_sig(real) if alive_count is not None and changed_since is None else None
      real.apply(op)
      if before is not None and _graph_sig(real) != before:
        changed_since = tg.op_text(op)
  return None


def witnesses(res):
  cfg = common.load_pytype()
  known, fixed = common.known_findings("C08")
  replayed = []
  for e in fixed:
    ops = [tg.parse_op(t) for t in e["witness"]["ops"]]
    fails = oracle_failures(cfg, ops)
    replayed.append({"id": e["id"], "kind": "fixed", "passes": not fails})
    if fails:
      i, a, b = fails[0]
      res.violation("fixed-" + e["id"], {
          "property": "C08", "kind": "fixed-witness-fails-again", "id": e["id"],
          "input": {"ops": [tg.op_text(o) for o in ops[:i + 1]], "live": a, "fresh_replica": b}})
  for e in known:
    ops = [tg.parse_op(t) for t in e["witness"]["ops"]]
    fails = [f for f in oracle_failures(cfg, ops) if f[0] == len(ops) - 1]
    replayed.append({"id": e["id"], "kind": "known", "still_fails": bool(fails)})
    if fails:
      res.known_lines.append(e["what"])
  res.cov["witnesses_replayed"] = replayed


def search(res, rng, disagreements, pfail):
  cfg = common.load_pytype()
  drv = common.Driver("drv_c08")
  t0 = time.time()
  budget = 150.0
  found = []
  known, _ = common.known_findings("C08")
  listed = {tuple(e["witness"]["ops"]) for e in known}

  def try_history(ops):
    """first reportable oracle failure of a history, shrunk"""
    for (i, a, b) in oracle_failures(cfg, ops):
      cand = ops[:i + 1]
      if reportable(cfg, drv, cand) is None:
        continue
      last = cand[-1]
      small = common.ddmin(cand, lambda c: reportable(cfg, drv, c) is not None, budget_s=25.0,
                           keep=lambda o: o is last)
      r = reportable(cfg, drv, small)
      if r is None:
        small, r = cand, reportable(cfg, drv, cand)
      texts = [tg.op_text(o) for o in small]
      if tuple(texts) in listed:
        continue
      return {"ops": texts, "live": r[0], "fresh_replica": r[1],
              "cyclic": tg.history_shape(small).cyclic()}
    return None

  def try_mechanism(ops):
    f = mechanism_failure(cfg, ops)
    if f is None:
      return None
    cand = [tg.parse_op(t) for t in f["ops"]]
    last = cand[-1]
    small = common.ddmin(cand, lambda c: mechanism_failure(cfg, c) is not None, budget_s=20.0,
                         keep=lambda o: o is last)
    return mechanism_failure(cfg, small) or f

  cands = [[tg.parse_op(t) for t in d["ops"]] for d in disagreements if d.get("ops")]
  cands.sort(key=len)
  examined = 0
  for ops in cands:
    if time.time() - t0 > budget or len(found) >= 2:
      break
    examined += 1
    try:
      f = try_history(ops)
    except Exception as e:
      f = {"ops": [tg.op_text(o) for o in ops], "exception": repr(e)}
    if f:
      found.append(f)
  if not found:
    # answers agree with the fresh replica everywhere: is the invalidation mechanism itself broken?
    for ops in cands[:40]:
      if time.time() - t0 > budget or found:
        break
      f = try_mechanism(ops)
      if f:
        found.append(f)
  # neighbourhood: short exhaustive sequences and fresh random histories
  if len(found) < 2:
    pool = list(itertools.islice(exhaustive_histories(3), 0, None, 3))
    rng.shuffle(pool)
    for ops in pool[:400]:
      if time.time() - t0 > budget * 0.6 or len(found) >= 2:
        break
      examined += 1
      f = try_history(ops)
      if f:
        found.append(f)
    while time.time() - t0 < budget and len(found) < 2:
      examined += 1
      ops, _, _ = random_history(cfg, rng, rng.randrange(15, 80))
      f = try_history(ops) or (try_mechanism(ops) if not found else None)
      if f:
        found.append(f)
  res.cov["search"] = {"histories_examined": examined, "wall_s": round(time.time() - t0, 1),
                       "oracle": "fresh replica rebuilt from the recorded history, compared at every query; a failure on a "
                                 "cyclic history whose live and fresh answers are both reproduced by the model is the listed "
                                 "known finding (not reported); second oracle: a graph-changing operation must drop the live "
                                 "solver (solver count from calculate_metrics)"}
  return found


def _prepare():
  from translate import invalidate_sites
  invalidate_sites.main()


def main():
  try:
    return common.run_check(
        "C08", REQUIRED, correspond, witnesses, search, prepare=_prepare,
        trusted=["hand-written model of the Program state machine (Program.lean), tied op-by-op to the real extension "
                 "(answers, solver count, memo size); WHICH C++ functions call InvalidateSolver (and under which guard), "
                 "which write solver-visible state and who calls those helpers is regenerated from typegraph.cc / "
                 "typegraph.h / cfg.cc on every run (translate/invalidate_sites.py, a brace matcher, not a C++ parser) "
                 "and proved equal to the table the model was written against (invalidate_sites_as_modelled)",
                 "heap-address order of Binding objects (orders std::set<SourceSet>) is measured on the real program "
                 "and passed to the model as address ranks",
                 "no 64-bit collisions of State::Hash; PathCacheTrie is a pure memo"],
        assumptions=["ids are dense and assigned in creation order; variables stay below MAX_VAR_SIZE-1 = 63 bindings",
                     "query_fresh is proved whenever the graph at query time is acyclic (any history, live solver) and, on any "
                     "graph, when no solver is alive or the query is solver-free; with a live solver on a cyclic graph it is "
                     "false (known findings c08-cyclic-*)",
                     "the fresh replica of the theorems shares the address ranks of the original program"])
  except common.Timeout as e:
    print("TIMEOUT property=C08 %s" % e)
    return 2


if __name__ == "__main__":
  sys.exit(main())
