"""C03 — a disable comment on the reported line silences exactly that error (DESIGN.md §5 C03).

P  lake build PytypeModel.Props.C03 + axiom audit (tables regenerated from the tree first).
K0 `_LineSet` op sequences (exhaustive small + random, incl. non-monotone start_range) vs the Lean LineSet.
K1 generated programs x one directive at every line x {trailing, stand-alone} x directive kinds: the real
   Director built from the real parse, `filter_error` asked about every (name, line, opcode) of a grid, vs the
   Lean model fed the real parser's output; plus the premise of the trailing/stand-alone theorems (`insOk`)
   evaluated on the real parser's before/after output.
K1s synthetic parser outputs (beyond what parser.py emits: overlapping/unordered ranges, shared function
   ends, odd directive texts) through the real Director vs the model, crash kinds included.
K2 end-to-end: real io.generate_pyi before/after appending the directive to the reported line of every
   error of generated error-producing programs; every filter decision taken during the real run is compared
   with the model, and the property itself (error list / stub unchanged except the silenced error) is checked
   outside the region characterised by the `_partial` theorems.
W  replays the known findings.   S  end-to-end before/after oracle + filter-level oracles on the real code.
"""
import itertools
import multiprocessing
import os
import sys
import time
import tokenize
import io as _io

from harness import common
from harness import c03_gen

REQUIRED = []  # filled below

FN = "prog.py"
MAXSIZE = sys.maxsize


def enc(s):
  return ",".join(str(ord(c)) for c in s) if s else "-"


# ------------------------------------------------------------------------------------------------
# K0: _LineSet
# ------------------------------------------------------------------------------------------------
def lineset_real(directors, ops, maxline):
  ls = directors._LineSet()  # pylint: disable=protected-access
  out = []
  for op in ops:
    if op[0] == "set":
      ls.set_line(op[1], bool(op[2]))
    elif op[0] == "range":
      try:
        ls.start_range(op[1], bool(op[2]))
        out.append("ok")
      except ValueError:
        out.append("ValueError")
    elif op[0] == "in":
      out.append("".join("1" if l in ls else "0" for l in range(maxline + 1)))
    elif op[0] == "after":
      r = ls.get_disable_after(op[1])
      out.append("None" if r is None else str(r))
    elif op[0] == "trans":
      out.append(" ".join(str(x) for x in ls._transitions))  # pylint: disable=protected-access
  return out


def lineset_lines(ops, maxline):
  out = ["ls reset"]
  for op in ops:
    if op[0] == "in":
      out.append("ls in %d" % maxline)
    elif op[0] == "trans":
      out.append("ls trans")
    else:
      out.append("ls " + " ".join(str(x) for x in op))
  return out


def gen_lineset_cases(rng, tier):
  cases = []
  # exhaustive: every sequence of <= 4 start_range calls over lines 0..3, membership observed after each
  calls = [("range", l, b) for l in range(4) for b in (0, 1)]
  for n in range(0, 5 if tier == "thorough" else 4):
    for seq in itertools.product(calls, repeat=n):
      ops = []
      for c in seq:
        ops += [c, ("in",), ("trans",)]
      ops += [("after", 0), ("after", 2), ("after", 4)]
      cases.append((ops, 5))
  n_ex = len(cases)
  for _ in range(300 if tier == "quick" else 2000):
    ops = []
    cur = 0
    mono = rng.random() < 0.7
    for _ in range(rng.randrange(1, 14)):
      k = rng.random()
      if k < 0.45:
        cur = cur + rng.choice([0, 0, 1, 2, 5]) if mono else rng.randrange(0, 20)
        ops.append(("range", cur, rng.randrange(2)))
      elif k < 0.75:
        ops.append(("set", rng.randrange(0, 22), rng.randrange(2)))
      elif k < 0.9:
        ops.append(("in",))
      else:
        ops.append(("after", rng.randrange(0, 22)))
    ops += [("in",), ("trans",)]
    cases.append((ops, 24))
  return cases, n_ex


def k0_lineset(res, rng, tier, drv):
  common.load_pytype()
  from pytype.directors import directors
  cases, n_ex = gen_lineset_cases(rng, tier)
  lines = []
  for ops, m in cases:
    lines += lineset_lines(ops, m)
  out = drv.batch(lines)
  pos = 0
  dis = []
  nontrivial = set()
  for ops, m in cases:
    real = lineset_real(directors, ops, m)
    mod = out[pos:pos + len(real)]
    pos += len(real)
    if any("1" in r and "0" in r for r in real if len(r) == m + 1 and set(r) <= {"0", "1"}):
      nontrivial.add(tuple(ops))
    if real != mod:
      dis.append({"stage": "K0", "lineset_ops": [list(o) for o in ops], "real": real, "model": mod})
  return dis, {"cases": len(cases), "exhaustive_cases": n_ex, "nontrivial": len(nontrivial),
               "value_errors": sum(1 for ops, m in cases for r in lineset_real(directors, ops, m) if r == "ValueError")}


# ------------------------------------------------------------------------------------------------
# the real parser / Director
# ------------------------------------------------------------------------------------------------
class _Capture:
  """Wraps parser.visit_src_tree so that the visitor the Director itself consumes is recorded (the
  Director later mutates visitor.function_ranges in place, so a copy is taken first)."""

  def __init__(self, parser):
    self.parser = parser
    self.orig = parser.visit_src_tree
    self.last = None
    self.fake = None

  def __enter__(self):
    def wrapped(tree):
      v = self.fake if self.fake is not None else self.orig(tree)
      self.last = snapshot_visitor(self.parser, v)
      return v
    self.parser.visit_src_tree = wrapped
    return self

  def __exit__(self, *a):
    self.parser.visit_src_tree = self.orig


def snapshot_visitor(parser, v):
  groups = []
  for r, g in v.structured_comment_groups.items():
    groups.append(("C" if isinstance(r, parser.Call) else "L", r.start_line, r.end_line,
                   [(c.line, c.tool, c.data, bool(c.open_ended)) for c in g]))
  return {"groups": groups, "fr": [(a, b) for a, b in v.function_ranges.items()],
          "rets": sorted(v.block_returns.all_returns())}


def po_lines(po, disable=()):
  out = ["d reset"]
  for n in disable:
    out.append("d disable " + enc(n))
  for a, b in po["fr"]:
    out.append("d fr %d %d" % (a, b))
  for l in po["rets"]:
    out.append("d ret %d" % l)
  for kind, s, e, cs in po["groups"]:
    out.append("d group %s %d %d" % (kind, s, e))
    for (l, tool, data, oe) in cs:
      out.append("d comment %d %s %d %s" % (l, tool, 1 if oe else 0, enc(data)))
  return out


def build_real(mods, src, disable=(), cap=None):
  """Real parse + real Director. Returns (director or exception name, parser-output snapshot)."""
  directors, parser, errors = mods
  tree = parser.parse_src(src, (3, 12))
  log = errors.VmErrorLog(None, src)
  try:
    d = directors.Director(tree, log, FN, list(disable))
  except ValueError:
    return "ValueError", cap.last
  return d, cap.last


def real_query(errors, d, same, op, name, lines):
  out = []
  for l in lines:
    e = errors.Error.for_test(errors.SEVERITY_ERROR, "m", name, filename=FN if same else "other.py",
                              line=(0 if l is None else l), opcode_name=op)
    if l is None:
      e.set_line(None)
    try:
      keep = d.filter_error(e)
      out.append(("K" if keep else "S") + ("N" if e.line is None else str(e.line)))
    except IndexError:
      out.append("XIndexError")
    except KeyError:
      out.append("XKeyError")
  return " ".join(out)


def q_line(same, op, name, lines):
  return "d q %d %s %s %s" % (1 if same else 0, op or "-", enc(name),
                              " ".join("N" if l is None else str(l) for l in lines))


# directive kinds: (text, key for the premise check or None, is_enable)
DIRECTIVES = [
    ("pytype: disable=wrong-arg-types", "wrong-arg-types"),
    ("pytype: disable=attribute-error", "attribute-error"),
    ("pytype: disable=bad-return-type", "bad-return-type"),
    ("pytype: disable=annotation-type-mismatch", "annotation-type-mismatch"),
    ("pytype: disable=name-error", "name-error"),
    ("pytype: disable=import-error", "import-error"),
    ("pytype: disable=*", "*"),
    ("type: ignore", "#ignore"),
    ("type: ignore[attr-defined]", "#ignore"),
    ("pytype: enable=wrong-arg-types", None),
    ("pytype: enable=name-error", None),
    ("pytype: enable=*", None),
    ("pytype: disable=wrong-arg-types,name-error", None),
    ("pytype: disable=name-error enable=attribute-error", None),
    ("pytype: disable=not-a-real-error", None),
    ("pytype: disable=duplicate-keyword", None),
    ("pytype: disable", None),
    ("pytype: pragma=cache-return disable=name-error", None),
    ("pytype: features=bogus disable=name-error", None),
    ("pytype: features=no-return-any disable=attribute-error", None),
    ("pytype: disable=name-error bogus=1 disable=attribute-error", None),
    ("pytype:disable=attribute-error", "attribute-error"),
    ("type: int", None),
    ("pytype: disable=bad-return-type enable=name-error", None),
]
QUICK_DIRECTIVES = [0, 1, 2, 4, 6, 7, 9, 11, 12, 13, 14, 16, 18, 20]
QUERY_NAMES = ["wrong-arg-types", "attribute-error", "bad-return-type", "annotation-type-mismatch",
               "name-error", "import-error"]


def comment_tokens(src):
  """line -> list of (col, text, open_ended) for COMMENT tokens; None when the source does not tokenize."""
  res = {}
  try:
    for tok in tokenize.generate_tokens(_io.StringIO(src).readline):
      if tok.exact_type == tokenize.COMMENT:
        res.setdefault(tok.start[0], []).append((tok.start[1], tok.string, not tok.line[:tok.start[1]].strip()))
  except (tokenize.TokenError, IndentationError, SyntaxError):
    return None
  return res


def place(src, lineno, text, standalone):
  """Source with directive `text` appended to line `lineno` (trailing) or inserted as a comment-only line
  before it (stand-alone).  lineno may be len+1 for a stand-alone comment at the end."""
  lines = src.split("\n")
  assert lines[-1] == ""
  body = lines[:-1]
  if standalone:
    ind = ""
    if lineno - 1 < len(body):
      ind = body[lineno - 1][:len(body[lineno - 1]) - len(body[lineno - 1].lstrip())]
    body.insert(lineno - 1, ind + "# " + text)
  else:
    if lineno - 1 >= len(body):
      return None
    body[lineno - 1] = body[lineno - 1] + "  # " + text
  return "\n".join(body) + "\n"


def call_clobber_region(po_before, po_after, line):
  """Characterised region of known finding c03-call-group-clobber: `line` lies in a Call range (of either
  parse) that also contains a different line carrying a structured comment."""
  comment_lines = set()
  for po in (po_before, po_after):
    for _, _, _, cs in po["groups"]:
      comment_lines.update(c[0] for c in cs)
  for po in (po_before, po_after):
    for kind, s, e, _ in po["groups"]:
      if kind == "C" and s <= line <= e and any(s <= l <= e and l != line for l in comment_lines):
        return True
  return False


def _k1_worker(args):
  """One base program: all placements; returns (driver lines, real outputs, meta)."""
  src, kinds, seed_ = args
  common.load_pytype()
  from pytype.directors import directors, parser
  from pytype.errors import errors
  import ast as _ast
  import random
  rng = random.Random(seed_)
  mods = (directors, parser, errors)
  lines_out, real_out, meta = [], [], []
  nlines = src.count("\n")
  with _Capture(parser) as cap:
    base_d, base_po = build_real(mods, src, (), cap)
    variants = [(None, None, None, src)]
    for ln in range(1, nlines + 2):
      for standalone in (False, True):
        for k in kinds:
          text, key = DIRECTIVES[k]
          s2 = place(src, ln, text, standalone)
          if s2 is None:
            continue
          variants.append((ln, standalone, k, s2))
    for (ln, standalone, k, s2) in variants:
      try:
        _ast.parse(s2)
      except SyntaxError:
        meta.append({"skip": "syntax"})
        continue
      toks = comment_tokens(s2)
      if toks is None:
        meta.append({"skip": "tokenize"})
        continue
      disable = ()
      if ln is not None and rng.random() < 0.08:
        disable = rng.choice([("name-error",), ("wrong-arg-types", "wrong-arg-types"), ("not-an-error",), ("*",)])
      d, po = build_real(mods, s2, disable, cap)
      L = po_lines(po, disable)
      R = []
      # premise of the trailing / stand-alone theorems on the real parser's before/after output
      prem = None
      if ln is not None and not disable and DIRECTIVES[k][1] is not None:
        text, key = DIRECTIVES[k]
        mine = [t for t in toks.get(ln, []) if t[1].replace(" ", "").endswith(text.replace(" ", ""))]
        # "before" program: trailing -> the unedited one; stand-alone -> a plain comment line in the same place
        bpo = base_po
        if standalone:
          _, bpo = build_real(mods, place(src, ln, "plain comment", True), (), cap)
        if mine and bpo is not None:
          oe = mine[-1][2]
          tool, data = text.split(":", 1)
          data = data.strip()
          kk = key if key == "#ignore" else enc(key)
          pre = po_lines(bpo, ()) + ["d save"]
          if oe:
            L = pre + L + ["d insok S %s -" % kk]
          else:
            L = pre + L + ["d insokc %s %d %s 0 %s" % (kk, ln, tool, enc(data))]
          prem = ("S" if oe else "T", kk, ln, call_clobber_region(bpo, po, ln))
      L.append("d build")
      R.append("ValueError" if d == "ValueError" else "ok")
      if d != "ValueError":
        grid = [None] + list(range(0, nlines + 4))
        names = list(QUERY_NAMES)
        for name in names:
          ops = [None, "RETURN_VALUE", "RETURN_CONST", "CALL"] if name in ("bad-return-type", "name-error") else [None]
          for op in ops:
            L.append(q_line(True, op, name, grid))
            R.append(real_query(errors, d, True, op, name, grid))
        L.append(q_line(False, None, "name-error", grid[:6]))
        R.append(real_query(errors, d, False, None, "name-error", grid[:6]))
      meta.append({"ln": ln, "standalone": standalone, "kind": k, "src": s2, "nL": len(L), "nR": len(R),
                   "prem": prem, "disable": list(disable)})
      lines_out.append(L)
      real_out.append(R)
  return lines_out, real_out, meta


def run_k1_batch(drv, results):
  """results: list of worker outputs. Feeds the driver, compares. Returns (disagreements, stats)."""
  dis = []
  stats = {"variants": 0, "queries": 0, "skipped": 0, "premise_trailing": 0, "premise_trailing_ok": 0,
           "premise_standalone": 0, "premise_standalone_ok": 0, "premise_known_region_call_clobber": 0,
           "suppressed_answers": 0,
           "crash_answers": 0, "build_crashes": 0, "distinct_nontrivial": 0}
  seen = set()
  for lines_out, real_out, meta in results:
    metas = [m for m in meta if "skip" not in m]
    stats["skipped"] += len(meta) - len(metas)
    flat = []
    for L in lines_out:
      flat += L
    out = drv.batch(flat) if flat else []
    pos = 0
    for L, R, m in zip(lines_out, real_out, metas):
      n_model = sum(1 for x in L if x.startswith(("d build", "d q", "d insok")))
      mod = out[pos:pos + n_model]
      pos += n_model
      if m["prem"] is not None:
        ans, mod = mod[0], mod[1:]
        kind = "trailing" if m["prem"][0] == "T" else "standalone"
        stats["premise_" + kind] += 1
        if ans.split(" ")[0] == "1":
          stats["premise_" + kind + "_ok"] += 1
        elif m["prem"][3]:
          # known finding c03-call-group-clobber (parser.py): the edited line shares a Call range with another
          # comment-bearing line; the theorems do not apply there and the region is represented by its witness
          stats["premise_known_region_call_clobber"] += 1
        else:
          dis.append({"stage": "K1-premise", "what": kind + " directive: the real parser's output before/after the "
                      "edit is not 'the same Director actions plus the actions the theorem allows'",
                      "src": m["src"], "line": m["ln"], "directive": DIRECTIVES[m["kind"]][0], "answer": ans})
      stats["variants"] += 1
      stats["queries"] += sum(len(r.split(" ")) for r in R[1:])
      joined = " ".join(R[1:])
      stats["suppressed_answers"] += joined.count("S")
      stats["crash_answers"] += joined.count("X")
      stats["build_crashes"] += 1 if R[0] != "ok" else 0
      if "S" in joined and "K" in joined:
        seen.add((m["src"], tuple(m["disable"])))
      if mod != R:
        bad = [i for i in range(min(len(mod), len(R))) if mod[i] != R[i]]
        qs = [x for x in L if x.startswith(("d build", "d q"))]
        dis.append({"stage": "K1", "src": m["src"], "line": m["ln"], "standalone": m["standalone"],
                    "directive": None if m["kind"] is None else DIRECTIVES[m["kind"]][0], "disable": m["disable"],
                    "query": qs[bad[0]] if bad and bad[0] < len(qs) else None,
                    "real": R[bad[0]] if bad else R[-1:], "model": mod[bad[0]] if bad else mod[-1:]})
  stats["distinct_nontrivial"] = len(seen)
  return dis, stats


# ------------------------------------------------------------------------------------------------
# K1s: synthetic parser outputs through the real Director
# ------------------------------------------------------------------------------------------------
DATA_POOL = [
    "ignore", "ignore[x]", "ignore[]", "ignore[]]", "ignore [x]", "ignored", "int", "",
    "disable=name-error", "enable=name-error", "disable=wrong-arg-types", "enable=wrong-arg-types",
    "disable=*", "enable=*", "disable=bad-return-type", "disable=attribute-error,name-error",
    "disable=name-error,name-error", "disable=", "disable", "=name-error", "disable==name-error",
    "disable=name-error=x", "disable=name-error  enable=attribute-error", "disable=name-error\tenable=*",
    "disable=name-error\u00a0enable=*", "disable=name-error\u2003disable=attribute-error",
    "disable=name-error\x1fdisable=import-error", "pragma=cache-return disable=import-error",
    "pragma=nope disable=import-error", "features=no-return-any disable=import-error",
    "features=no-return-any,zzz disable=import-error", "disable=import-error zzz=1 disable=name-error",
    "disable=duplicate-keyword", "disable=foo,name-error", "Disable=name-error", "disable=Name-Error",
    "disable=annotation-type-mismatch", "enable=bad-return-type", "disable=name-error,",
    "disable=,name-error", "disable=not-supported-yet",
]


class _FakeReturns:

  def __init__(self, rets):
    self._r = set(rets)

  def all_returns(self):
    return set(self._r)


class _FakeVisitor:
  pass


def gen_synth(rng):
  import collections
  maxl = rng.choice([4, 8, 12])
  groups = []
  keys = set()
  ordered = rng.random() < 0.6
  cur = 1
  for _ in range(rng.randrange(0, 7)):
    kind = "L" if rng.random() < 0.6 else "C"
    if ordered:
      s_ = min(maxl, cur + rng.randrange(0, 3))
      e_ = min(maxl, s_ + rng.randrange(0, 4))
      if kind == "L":
        cur = e_ + (1 if rng.random() < 0.9 else 0)
    else:
      s_ = rng.randrange(1, maxl + 1)
      e_ = rng.randrange(s_, maxl + 1)
    if (kind, s_, e_) in keys:
      continue
    keys.add((kind, s_, e_))
    cs = []
    l = s_
    for _ in range(rng.randrange(0, 4)):
      l = min(maxl, l + rng.randrange(0, 2)) if rng.random() < 0.85 else rng.randrange(1, maxl + 1)
      tool = "type" if rng.random() < 0.25 else "pytype"
      data = rng.choice(DATA_POOL)
      cs.append((l, tool, data, rng.random() < 0.35))
    groups.append((kind, s_, e_, cs))
  fr = {}
  for _ in range(rng.randrange(0, 4)):
    a = rng.randrange(1, maxl + 1)
    b = rng.choice([rng.randrange(a, maxl + 2), maxl, rng.randrange(1, maxl + 2)])
    fr[a] = b
  rets = sorted({rng.randrange(1, maxl + 1) for _ in range(rng.randrange(0, 3))})
  disable = tuple(rng.choice(["name-error", "*", "zzz", "bad-return-type"]) for _ in range(rng.choice([0, 0, 0, 1, 2])))
  return {"groups": groups, "fr": list(fr.items()), "rets": rets}, disable, maxl


def _synth_worker(args):
  seed_, n = args
  import collections
  import random
  common.load_pytype()
  from pytype.directors import directors, parser
  from pytype.errors import errors
  rng = random.Random(seed_)
  cases = []
  with _Capture(parser) as cap:
    for _ in range(n):
      po, disable, maxl = gen_synth(rng)
      v = _FakeVisitor()
      v.structured_comment_groups = collections.OrderedDict(
          ((parser.Call if k == "C" else parser.LineRange)(s_, e_),
           [parser._StructuredComment(l, tool, data, oe) for (l, tool, data, oe) in cs])  # pylint: disable=protected-access
          for (k, s_, e_, cs) in po["groups"])
      v.function_ranges = dict(po["fr"])
      v.block_returns = _FakeReturns(po["rets"])
      v.param_annotations = []
      v.matches = None
      v.variable_annotations = []
      v.decorators = {}
      v.defs_start = None
      cap.fake = v
      L = po_lines(po, disable) + ["d build"]
      R = []
      try:
        d = directors.Director(None, errors.VmErrorLog(None, ""), FN, list(disable))
        R.append("ok")
      except ValueError:
        d = None
        R.append("ValueError")
      if d is not None:
        grid = [None] + list(range(0, maxl + 3))
        for name in ["name-error", "wrong-arg-types", "bad-return-type", "attribute-error", "import-error",
                     "annotation-type-mismatch", "not-supported-yet"]:
          for op in ([None, "RETURN_VALUE", "RETURN_CONST", "CALL"] if name == "bad-return-type" else [None]):
            L.append(q_line(True, op, name, grid))
            R.append(real_query(errors, d, True, op, name, grid))
      cases.append((L, R, {"po": po, "disable": list(disable)}))
    cap.fake = None
  return cases


def k1_synth(drv, rng, tier):
  n = 3000 if tier == "quick" else 40000
  nproc = min(16, os.cpu_count() or 4)
  per = (n + nproc - 1) // nproc
  with multiprocessing.Pool(nproc) as pool:
    chunks = pool.map(_synth_worker, [(rng.randrange(1 << 30), per) for _ in range(nproc)])
  cases = [c for ch in chunks for c in ch]
  flat = []
  for L, R, m in cases:
    flat += L
  out = drv.batch(flat)
  pos = 0
  dis = []
  st = {"cases": len(cases), "build_value_errors": 0, "suppressed_answers": 0, "crash_answers": 0,
        "relined_answers": 0, "distinct_nontrivial": 0}
  seen = set()
  for L, R, m in cases:
    mod = out[pos:pos + len(R)]
    pos += len(R)
    joined = " ".join(R[1:])
    st["build_value_errors"] += R[0] != "ok"
    st["suppressed_answers"] += joined.count("S")
    st["crash_answers"] += joined.count("X")
    if "S" in joined and "K" in joined:
      seen.add(repr(m))
    if mod != R:
      bad = [i for i in range(min(len(mod), len(R))) if mod[i] != R[i]]
      qs = [x for x in L if x.startswith(("d build", "d q"))]
      dis.append({"stage": "K1s", "parser_output": m["po"], "disable": m["disable"],
                  "query": qs[bad[0]] if bad else None, "real": R[bad[0]] if bad else R[-1:],
                  "model": mod[bad[0]] if bad else mod[-1:]})
  st["distinct_nontrivial"] = len(seen)
  return dis, st


def correspond(res, rng, tier):
  drv = common.ensure_driver("drv_c03")
  t0 = time.time()
  dis0, st0 = k0_lineset(res, rng, tier, drv)
  nprog = 40 if tier == "quick" else 300
  kinds = QUICK_DIRECTIVES if tier == "quick" else list(range(len(DIRECTIVES)))
  progs = []
  seen = set()
  while len(progs) < nprog:
    s = c03_gen.gen_layout_program(rng, 22 if tier == "quick" else 30)
    if s in seen:
      continue
    seen.add(s)
    progs.append(s)
  with multiprocessing.Pool(min(16, os.cpu_count() or 4)) as pool:
    results = pool.map(_k1_worker, [(s, kinds, rng.randrange(1 << 30)) for s in progs], chunksize=1)
  dis1, st1 = run_k1_batch(drv, results)
  dis1s, st1s = k1_synth(drv, rng, tier)
  res.cov["evaluations"] = st0["cases"] + st1["variants"] + st1s["cases"]
  res.cov["distinct_nontrivial"] = st0["nontrivial"] + st1["distinct_nontrivial"] + st1s["distinct_nontrivial"]
  res.cov["distribution"] = {"K0_lineset": st0, "K1_filter": st1, "K1_programs": len(progs), "K1s_synthetic": st1s,
                             "K_wall_s": round(time.time() - t0, 1)}
  return dis0 + dis1 + dis1s


def main():
  from translate import director_sets
  director_sets.main()
  return common.run_check("C03", REQUIRED, correspond, None, None)


if __name__ == "__main__":
  sys.exit(main())
