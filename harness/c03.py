"""C03 — a disable comment on the reported line silences exactly that error (DESIGN.md §5 C03).

P  lake build PytypeModel.Props.C03 + axiom audit (tables regenerated from the tree first).
K0 `_LineSet` op sequences (exhaustive small + random, incl. non-monotone start_range) vs the Lean LineSet.
K1 generated programs x one directive at every line x {trailing, stand-alone} x directive kinds: the real
   Director built from the real parse, `filter_error` asked about every (name, line, opcode) of a grid, vs the
   Lean model fed the real parser's output; plus the premise of the trailing/stand-alone theorems (`insOk`)
   evaluated on the real parser's before/after output.
K1s synthetic parser outputs (beyond what parser.py emits: overlapping/unordered ranges, shared function
   ends, odd directive texts) through the real Director vs the model, crash kinds included.
K2 end-to-end: real io.generate_pyi before/after appending the directive to the reported line of every
   error of generated error-producing programs; every filter decision taken during the real run is compared
   with the model, and the property itself (error list / stub unchanged except the silenced error) is checked
   outside the region characterised by the `_partial` theorems.
W  replays the known findings.   S  end-to-end before/after oracle + filter-level oracles on the real code.
"""
import itertools
import multiprocessing
import warnings
import os
import sys
import time
import tokenize
import io as _io

from harness import common
from harness import c03_gen

warnings.filterwarnings("ignore", category=SyntaxWarning)  # generated programs call/subscript literals

REQUIRED = [
    "lineset_spec", "lineset_set_line", "start_range_error_iff", "transitions_sorted", "lineset_ranges_spec",
    "function_call_subset_adjustable", "table_facts", "directive_text_parses",
    "trailing_directive_partial", "trailing_disable_partial", "trailing_ignore_partial",
    "trailing_disable_silences", "trailing_ignore_silences", "ignore_never_unset",
    "trailing_disable_not_full", "trailing_reline_not_full", "trailing_enable_not_full",
    "standalone_spec", "standalone_range", "standalone_to_eof", "standalone_noninterference",
]

FN = "prog.py"
MAXSIZE = sys.maxsize


def enc(s):
  return ",".join(str(ord(c)) for c in s) if s else "-"


# ------------------------------------------------------------------------------------------------
# K0: _LineSet
# ------------------------------------------------------------------------------------------------
def lineset_real(directors, ops, maxline):
  ls = directors._LineSet()  # pylint: disable=protected-access
  out = []
  for op in ops:
    if op[0] == "set":
      ls.set_line(op[1], bool(op[2]))
    elif op[0] == "range":
      try:
        ls.start_range(op[1], bool(op[2]))
        out.append("ok")
      except ValueError:
        out.append("ValueError")
    elif op[0] == "in":
      out.append("".join("1" if l in ls else "0" for l in range(maxline + 1)))
    elif op[0] == "after":
      r = ls.get_disable_after(op[1])
      out.append("None" if r is None else str(r))
    elif op[0] == "trans":
      out.append(" ".join(str(x) for x in ls._transitions))  # pylint: disable=protected-access
  return out


def lineset_lines(ops, maxline):
  out = ["ls reset"]
  for op in ops:
    if op[0] == "in":
      out.append("ls in %d" % maxline)
    elif op[0] == "trans":
      out.append("ls trans")
    else:
      out.append("ls " + " ".join(str(x) for x in op))
  return out


def gen_lineset_cases(rng, tier):
  cases = []
  # exhaustive: every sequence of <= 4 start_range calls over lines 0..3, membership observed after each
  calls = [("range", l, b) for l in range(4) for b in (0, 1)]
  for n in range(0, 5 if tier == "thorough" else 4):
    for seq in itertools.product(calls, repeat=n):
      ops = []
      for c in seq:
        ops += [c, ("in",), ("trans",)]
      ops += [("after", 0), ("after", 2), ("after", 4)]
      cases.append((ops, 5))
  n_ex = len(cases)
  for _ in range(300 if tier == "quick" else 2000):
    ops = []
    cur = 0
    mono = rng.random() < 0.7
    for _ in range(rng.randrange(1, 14)):
      k = rng.random()
      if k < 0.45:
        cur = cur + rng.choice([0, 0, 1, 2, 5]) if mono else rng.randrange(0, 20)
        ops.append(("range", cur, rng.randrange(2)))
      elif k < 0.75:
        ops.append(("set", rng.randrange(0, 22), rng.randrange(2)))
      elif k < 0.9:
        ops.append(("in",))
      else:
        ops.append(("after", rng.randrange(0, 22)))
    ops += [("in",), ("trans",)]
    cases.append((ops, 24))
  return cases, n_ex


def k0_lineset(res, rng, tier, drv):
  common.load_pytype()
  from pytype.directors import directors
  cases, n_ex = gen_lineset_cases(rng, tier)
  lines = []
  for ops, m in cases:
    lines += lineset_lines(ops, m)
  out = drv.batch(lines)
  pos = 0
  dis = []
  nontrivial = set()
  for ops, m in cases:
    real = lineset_real(directors, ops, m)
    mod = out[pos:pos + len(real)]
    pos += len(real)
    if any("1" in r and "0" in r for r in real if len(r) == m + 1 and set(r) <= {"0", "1"}):
      nontrivial.add(tuple(ops))
    if real != mod:
      dis.append({"stage": "K0", "lineset_ops": [list(o) for o in ops], "real": real, "model": mod})
  return dis, {"cases": len(cases), "exhaustive_cases": n_ex, "nontrivial": len(nontrivial),
               "value_errors": sum(1 for ops, m in cases for r in lineset_real(directors, ops, m) if r == "ValueError")}


# ------------------------------------------------------------------------------------------------
# the real parser / Director
# ------------------------------------------------------------------------------------------------
class _Capture:
  """Wraps parser.visit_src_tree so that the visitor the Director itself consumes is recorded (the
  Director later mutates visitor.function_ranges in place, so a copy is taken first)."""

  def __init__(self, parser):
    self.parser = parser
    self.orig = parser.visit_src_tree
    self.last = None
    self.fake = None

  def __enter__(self):
    def wrapped(tree):
      v = self.fake if self.fake is not None else self.orig(tree)
      self.last = snapshot_visitor(self.parser, v)
      return v
    self.parser.visit_src_tree = wrapped
    return self

  def __exit__(self, *a):
    self.parser.visit_src_tree = self.orig


def snapshot_visitor(parser, v):
  groups = []
  for r, g in v.structured_comment_groups.items():
    groups.append(("C" if isinstance(r, parser.Call) else "L", r.start_line, r.end_line,
                   [(c.line, c.tool, c.data, bool(c.open_ended)) for c in g]))
  return {"groups": groups, "fr": [(a, b) for a, b in v.function_ranges.items()],
          "rets": sorted(v.block_returns.all_returns())}


def po_lines(po, disable=()):
  out = ["d reset"]
  for n in disable:
    out.append("d disable " + enc(n))
  for a, b in po["fr"]:
    out.append("d fr %d %d" % (a, b))
  for l in po["rets"]:
    out.append("d ret %d" % l)
  for kind, s, e, cs in po["groups"]:
    out.append("d group %s %d %d" % (kind, s, e))
    for (l, tool, data, oe) in cs:
      out.append("d comment %d %s %d %s" % (l, tool, 1 if oe else 0, enc(data)))
  return out


def build_real(mods, src, disable=(), cap=None):
  """Real parse + real Director. Returns (director or exception name, parser-output snapshot)."""
  directors, parser, errors = mods
  tree = parser.parse_src(src, (3, 12))
  log = errors.VmErrorLog(None, src)
  try:
    d = directors.Director(tree, log, FN, list(disable))
  except ValueError:
    return "ValueError", cap.last
  return d, cap.last


def real_query(errors, d, same, op, name, lines):
  out = []
  for l in lines:
    e = errors.Error.for_test(errors.SEVERITY_ERROR, "m", name, filename=FN if same else "other.py",
                              line=(0 if l is None else l), opcode_name=op)
    if l is None:
      e.set_line(None)
    try:
      keep = d.filter_error(e)
      out.append(("K" if keep else "S") + ("N" if e.line is None else str(e.line)))
    except IndexError:
      out.append("XIndexError")
    except KeyError:
      out.append("XKeyError")
  return " ".join(out)


def q_line(same, op, name, lines):
  return "d q %d %s %s %s" % (1 if same else 0, op or "-", enc(name),
                              " ".join("N" if l is None else str(l) for l in lines))


# directive kinds: (text, key for the premise check or None, is_enable)
DIRECTIVES = [
    ("pytype: disable=wrong-arg-types", "wrong-arg-types"),
    ("pytype: disable=attribute-error", "attribute-error"),
    ("pytype: disable=bad-return-type", "bad-return-type"),
    ("pytype: disable=annotation-type-mismatch", "annotation-type-mismatch"),
    ("pytype: disable=name-error", "name-error"),
    ("pytype: disable=import-error", "import-error"),
    ("pytype: disable=*", "*"),
    ("type: ignore", "#ignore"),
    ("type: ignore[attr-defined]", "#ignore"),
    ("pytype: enable=wrong-arg-types", None),
    ("pytype: enable=name-error", None),
    ("pytype: enable=*", None),
    ("pytype: disable=wrong-arg-types,name-error", None),
    ("pytype: disable=name-error enable=attribute-error", None),
    ("pytype: disable=not-a-real-error", None),
    ("pytype: disable=duplicate-keyword", None),
    ("pytype: disable", None),
    ("pytype: pragma=cache-return disable=name-error", None),
    ("pytype: features=bogus disable=name-error", None),
    ("pytype: features=no-return-any disable=attribute-error", None),
    ("pytype: disable=name-error bogus=1 disable=attribute-error", None),
    ("pytype:disable=attribute-error", "attribute-error"),
    ("type: int", None),
    ("pytype: disable=bad-return-type enable=name-error", None),
]
QUICK_DIRECTIVES = [0, 1, 2, 4, 6, 7, 9, 11, 12, 13, 14, 16, 18, 20]
QUERY_NAMES = ["wrong-arg-types", "attribute-error", "bad-return-type", "annotation-type-mismatch",
               "name-error", "import-error"]


def comment_tokens(src):
  """line -> list of (col, text, open_ended) for COMMENT tokens; None when the source does not tokenize."""
  res = {}
  try:
    for tok in tokenize.generate_tokens(_io.StringIO(src).readline):
      if tok.exact_type == tokenize.COMMENT:
        res.setdefault(tok.start[0], []).append((tok.start[1], tok.string, not tok.line[:tok.start[1]].strip()))
  except (tokenize.TokenError, IndentationError, SyntaxError):
    return None
  return res


def place(src, lineno, text, standalone):
  """Source with directive `text` appended to line `lineno` (trailing) or inserted as a comment-only line
  before it (stand-alone).  lineno may be len+1 for a stand-alone comment at the end."""
  lines = src.split("\n")
  assert lines[-1] == ""
  body = lines[:-1]
  if standalone:
    ind = ""
    if lineno - 1 < len(body):
      ind = body[lineno - 1][:len(body[lineno - 1]) - len(body[lineno - 1].lstrip())]
    body.insert(lineno - 1, ind + "# " + text)
  else:
    if lineno - 1 >= len(body):
      return None
    body[lineno - 1] = body[lineno - 1] + "  # " + text
  return "\n".join(body) + "\n"


def call_clobber_region(po_before, po_after, line):
  """Characterised region of known finding c03-call-group-clobber: `line` lies in a Call range (of either
  parse) that also contains a different line carrying a structured comment."""
  comment_lines = set()
  for po in (po_before, po_after):
    for _, _, _, cs in po["groups"]:
      comment_lines.update(c[0] for c in cs)
  for po in (po_before, po_after):
    for kind, s, e, _ in po["groups"]:
      if kind == "C" and s <= line <= e and any(s <= l <= e and l != line for l in comment_lines):
        return True
  return False


def _k1_worker(args):
  """One base program: all placements; returns (driver lines, real outputs, meta)."""
  src, kinds, seed_ = args
  common.load_pytype()
  from pytype.directors import directors, parser
  from pytype.errors import errors
  import ast as _ast
  import random
  rng = random.Random(seed_)
  mods = (directors, parser, errors)
  lines_out, real_out, meta = [], [], []
  nlines = src.count("\n")
  with _Capture(parser) as cap:
    base_d, base_po = build_real(mods, src, (), cap)
    variants = [(None, None, None, src)]
    for ln in range(1, nlines + 2):
      for standalone in (False, True):
        for k in kinds:
          text, key = DIRECTIVES[k]
          s2 = place(src, ln, text, standalone)
          if s2 is None:
            continue
          variants.append((ln, standalone, k, s2))
    for (ln, standalone, k, s2) in variants:
      try:
        _ast.parse(s2)
      except SyntaxError:
        meta.append({"skip": "syntax"})
        continue
      toks = comment_tokens(s2)
      if toks is None:
        meta.append({"skip": "tokenize"})
        continue
      disable = ()
      if ln is not None and rng.random() < 0.08:
        disable = rng.choice([("name-error",), ("wrong-arg-types", "wrong-arg-types"), ("not-an-error",), ("*",)])
      d, po = build_real(mods, s2, disable, cap)
      L = po_lines(po, disable)
      R = []
      # premise of the trailing / stand-alone theorems on the real parser's before/after output
      prem = None
      if ln is not None and not disable and DIRECTIVES[k][1] is not None:
        text, key = DIRECTIVES[k]
        mine = [t for t in toks.get(ln, []) if t[1].replace(" ", "").endswith(text.replace(" ", ""))]
        # "before" program: trailing -> the unedited one; stand-alone -> a plain comment line in the same place
        bpo = base_po
        if standalone:
          _, bpo = build_real(mods, place(src, ln, "plain comment", True), (), cap)
        if mine and bpo is not None:
          oe = mine[-1][2]
          tool, data = text.split(":", 1)
          data = data.strip()
          kk = key if key == "#ignore" else enc(key)
          pre = po_lines(bpo, ()) + ["d save"]
          if oe:
            L = pre + L + ["d insok S %s -" % kk]
          else:
            L = pre + L + ["d insokc %s %d %s 0 %s" % (kk, ln, tool, enc(data))]
          zone = False
          if oe and tool == "type":
            # a stand-alone `# type:` comment between a def header and its body is taken for a function type
            # comment by parser.py and ends the signature's line range there: not a plain stand-alone directive
            for node in _ast.walk(_ast.parse(s2)):
              if isinstance(node, (_ast.FunctionDef, _ast.AsyncFunctionDef)) and node.lineno <= ln < node.body[0].lineno:
                zone = True
          prem = ("S" if oe else "T", kk, ln, call_clobber_region(bpo, po, ln), zone)
      L.append("d build")
      R.append("ValueError" if d == "ValueError" else "ok")
      if d != "ValueError":
        grid = [None] + list(range(0, nlines + 4))
        names = list(QUERY_NAMES)
        for name in names:
          ops = [None, "RETURN_VALUE", "RETURN_CONST", "CALL"] if name in ("bad-return-type", "name-error") else [None]
          for op in ops:
            L.append(q_line(True, op, name, grid))
            R.append(real_query(errors, d, True, op, name, grid))
        L.append(q_line(False, None, "name-error", grid[:6]))
        R.append(real_query(errors, d, False, None, "name-error", grid[:6]))
      meta.append({"ln": ln, "standalone": standalone, "kind": k, "src": s2, "nL": len(L), "nR": len(R),
                   "prem": prem, "disable": list(disable)})
      lines_out.append(L)
      real_out.append(R)
  return compare_k1(common.Driver("drv_c03"), [(lines_out, real_out, meta)])


def _k1_stats():
  return {"variants": 0, "queries": 0, "skipped": 0, "premise_trailing": 0, "premise_trailing_ok": 0,
          "premise_standalone": 0, "premise_standalone_ok": 0, "premise_known_region_call_clobber": 0,
          "premise_excluded_function_type_comment_zone": 0,
          "suppressed_answers": 0, "crash_answers": 0, "build_crashes": 0, "distinct_nontrivial": 0}


def run_k1_batch(results):
  """Merges the per-program worker results."""
  dis, stats = [], _k1_stats()
  for d, st in results:
    dis += d
    for k, v in st.items():
      stats[k] += v
  return dis, stats


def compare_k1(drv, results):
  """results: list of (driver lines, real outputs, meta). Feeds the driver, compares. Returns (disagreements, stats)."""
  dis = []
  stats = _k1_stats()
  seen = set()
  for lines_out, real_out, meta in results:
    metas = [m for m in meta if "skip" not in m]
    stats["skipped"] += len(meta) - len(metas)
    flat = []
    for L in lines_out:
      flat += L
    out = drv.batch(flat) if flat else []
    pos = 0
    for L, R, m in zip(lines_out, real_out, metas):
      n_model = sum(1 for x in L if x.startswith(("d build", "d q", "d insok")))
      mod = out[pos:pos + n_model]
      pos += n_model
      if m["prem"] is not None:
        ans, mod = mod[0], mod[1:]
        kind = "trailing" if m["prem"][0] == "T" else "standalone"
        stats["premise_" + kind] += 1
        if ans.split(" ")[0] == "1":
          stats["premise_" + kind + "_ok"] += 1
        elif m["prem"][4]:
          stats["premise_excluded_function_type_comment_zone"] += 1
        elif m["prem"][3]:
          # known finding c03-call-group-clobber (parser.py): the edited line shares a Call range with another
          # comment-bearing line; the theorems do not apply there and the region is represented by its witness
          stats["premise_known_region_call_clobber"] += 1
        else:
          dis.append({"stage": "K1-premise", "what": kind + " directive: the real parser's output before/after the "
                      "edit is not 'the same Director actions plus the actions the theorem allows'",
                      "src": m["src"], "line": m["ln"], "directive": DIRECTIVES[m["kind"]][0], "answer": ans})
      stats["variants"] += 1
      stats["queries"] += sum(len(r.split(" ")) for r in R[1:])
      joined = " ".join(R[1:])
      stats["suppressed_answers"] += joined.count("S")
      stats["crash_answers"] += joined.count("X")
      stats["build_crashes"] += 1 if R[0] != "ok" else 0
      if "S" in joined and "K" in joined:
        seen.add((m["src"], tuple(m["disable"])))
      if mod != R:
        bad = [i for i in range(min(len(mod), len(R))) if mod[i] != R[i]]
        qs = [x for x in L if x.startswith(("d build", "d q"))]
        dis.append({"stage": "K1", "src": m["src"], "line": m["ln"], "standalone": m["standalone"],
                    "directive": None if m["kind"] is None else DIRECTIVES[m["kind"]][0], "disable": m["disable"],
                    "query": qs[bad[0]] if bad and bad[0] < len(qs) else None,
                    "real": R[bad[0]] if bad else R[-1:], "model": mod[bad[0]] if bad else mod[-1:]})
  stats["distinct_nontrivial"] = len(seen)
  return dis, stats


# ------------------------------------------------------------------------------------------------
# K1s: synthetic parser outputs through the real Director
# ------------------------------------------------------------------------------------------------
DATA_POOL = [
    "ignore", "ignore[x]", "ignore[]", "ignore[]]", "ignore [x]", "ignored", "int", "",
    "disable=name-error", "enable=name-error", "disable=wrong-arg-types", "enable=wrong-arg-types",
    "disable=*", "enable=*", "disable=bad-return-type", "disable=attribute-error,name-error",
    "disable=name-error,name-error", "disable=", "disable", "=name-error", "disable==name-error",
    "disable=name-error=x", "disable=name-error  enable=attribute-error", "disable=name-error\tenable=*",
    "disable=name-error\u00a0enable=*", "disable=name-error\u2003disable=attribute-error",
    "disable=name-error\x1fdisable=import-error", "pragma=cache-return disable=import-error",
    "pragma=nope disable=import-error", "features=no-return-any disable=import-error",
    "features=no-return-any,zzz disable=import-error", "disable=import-error zzz=1 disable=name-error",
    "disable=duplicate-keyword", "disable=foo,name-error", "Disable=name-error", "disable=Name-Error",
    "disable=annotation-type-mismatch", "enable=bad-return-type", "disable=name-error,",
    "disable=,name-error", "disable=not-supported-yet",
]


class _FakeReturns:

  def __init__(self, rets):
    self._r = set(rets)

  def all_returns(self):
    return set(self._r)


class _FakeVisitor:
  pass


def gen_synth(rng):
  import collections
  maxl = rng.choice([4, 8, 12])
  groups = []
  keys = set()
  ordered = rng.random() < 0.6
  cur = 1
  for _ in range(rng.randrange(0, 7)):
    kind = "L" if rng.random() < 0.6 else "C"
    if ordered:
      s_ = min(maxl, cur + rng.randrange(0, 3))
      e_ = min(maxl, s_ + rng.randrange(0, 4))
      if kind == "L":
        cur = e_ + (1 if rng.random() < 0.9 else 0)
    else:
      s_ = rng.randrange(1, maxl + 1)
      e_ = rng.randrange(s_, maxl + 1)
    if (kind, s_, e_) in keys:
      continue
    keys.add((kind, s_, e_))
    cs = []
    l = s_
    for _ in range(rng.randrange(0, 4)):
      l = min(maxl, l + rng.randrange(0, 2)) if rng.random() < 0.85 else rng.randrange(1, maxl + 1)
      tool = "type" if rng.random() < 0.25 else "pytype"
      data = rng.choice(DATA_POOL)
      cs.append((l, tool, data, rng.random() < 0.35))
    groups.append((kind, s_, e_, cs))
  fr = {}
  for _ in range(rng.randrange(0, 4)):
    a = rng.randrange(1, maxl + 1)
    b = rng.choice([rng.randrange(a, maxl + 2), maxl, rng.randrange(1, maxl + 2)])
    fr[a] = b
  rets = sorted({rng.randrange(1, maxl + 1) for _ in range(rng.randrange(0, 3))})
  disable = tuple(rng.choice(["name-error", "*", "zzz", "bad-return-type"]) for _ in range(rng.choice([0, 0, 0, 1, 2])))
  return {"groups": groups, "fr": list(fr.items()), "rets": rets}, disable, maxl


def _synth_worker(args):
  seed_, n = args
  import collections
  import random
  common.load_pytype()
  from pytype.directors import directors, parser
  from pytype.errors import errors
  rng = random.Random(seed_)
  cases = []
  with _Capture(parser) as cap:
    for _ in range(n):
      po, disable, maxl = gen_synth(rng)
      v = _FakeVisitor()
      v.structured_comment_groups = collections.OrderedDict(
          ((parser.Call if k == "C" else parser.LineRange)(s_, e_),
           [parser._StructuredComment(l, tool, data, oe) for (l, tool, data, oe) in cs])  # pylint: disable=protected-access
          for (k, s_, e_, cs) in po["groups"])
      v.function_ranges = dict(po["fr"])
      v.block_returns = _FakeReturns(po["rets"])
      v.param_annotations = []
      v.matches = None
      v.variable_annotations = []
      v.decorators = {}
      v.defs_start = None
      cap.fake = v
      L = po_lines(po, disable) + ["d build"]
      R = []
      try:
        d = directors.Director(None, errors.VmErrorLog(None, ""), FN, list(disable))
        R.append("ok")
      except ValueError:
        d = None
        R.append("ValueError")
      if d is not None:
        grid = [None] + list(range(0, maxl + 3))
        for name in ["name-error", "wrong-arg-types", "bad-return-type", "attribute-error", "import-error",
                     "annotation-type-mismatch", "not-supported-yet"]:
          for op in ([None, "RETURN_VALUE", "RETURN_CONST", "CALL"] if name == "bad-return-type" else [None]):
            L.append(q_line(True, op, name, grid))
            R.append(real_query(errors, d, True, op, name, grid))
      cases.append((L, R, {"po": po, "disable": list(disable)}))
    cap.fake = None
  return compare_synth(common.Driver("drv_c03"), cases)


def compare_synth(drv, cases):
  flat = []
  for L, R, m in cases:
    flat += L
  out = drv.batch(flat)
  pos = 0
  dis = []
  st = {"cases": len(cases), "build_value_errors": 0, "suppressed_answers": 0, "crash_answers": 0,
        "distinct_nontrivial": 0}
  seen = set()
  for L, R, m in cases:
    mod = out[pos:pos + len(R)]
    pos += len(R)
    joined = " ".join(R[1:])
    st["build_value_errors"] += R[0] != "ok"
    st["suppressed_answers"] += joined.count("S")
    st["crash_answers"] += joined.count("X")
    if "S" in joined and "K" in joined:
      seen.add(repr(m))
    if mod != R:
      bad = [i for i in range(min(len(mod), len(R))) if mod[i] != R[i]]
      qs = [x for x in L if x.startswith(("d build", "d q"))]
      dis.append({"stage": "K1s", "parser_output": m["po"], "disable": m["disable"],
                  "query": qs[bad[0]] if bad else None, "real": R[bad[0]] if bad else R[-1:],
                  "model": mod[bad[0]] if bad else mod[-1:]})
  st["distinct_nontrivial"] = len(seen)
  return dis, st


def k1_synth(drv, rng, tier):
  n = 2400 if tier == "quick" else 40000
  nproc = min(16, os.cpu_count() or 4)
  chunks_n = nproc if tier == "quick" else nproc * 8
  per = (n + chunks_n - 1) // chunks_n
  with multiprocessing.Pool(nproc) as pool:
    chunks = pool.map(_synth_worker, [(rng.randrange(1 << 30), per) for _ in range(chunks_n)], chunksize=1)
  dis = []
  st = {"cases": 0, "build_value_errors": 0, "suppressed_answers": 0, "crash_answers": 0, "distinct_nontrivial": 0}
  for d, s_ in chunks:
    dis += d
    for k, v in s_.items():
      st[k] += v
  return dis, st


def correspond(res, rng, tier):
  drv = common.Driver("drv_c03")   # built together with the proofs (extra_targets), one lake invocation
  t0 = time.time()
  dis0, st0 = k0_lineset(res, rng, tier, drv)
  t_k0 = time.time() - t0
  nprog = 32 if tier == "quick" else 100
  kinds = QUICK_DIRECTIVES if tier == "quick" else list(range(len(DIRECTIVES)))
  progs = []
  seen = set()
  while len(progs) < nprog:
    s = c03_gen.gen_layout_program(rng, 22 if tier == "quick" else 30)
    if s in seen:
      continue
    seen.add(s)
    progs.append(s)
  with multiprocessing.Pool(min(16, os.cpu_count() or 4)) as pool:
    results = pool.map(_k1_worker, [(s, kinds, rng.randrange(1 << 30)) for s in progs], chunksize=1)
  dis1, st1 = run_k1_batch(results)
  t_k1 = time.time() - t0 - t_k0
  t2 = time.time()
  dis1s, st1s = k1_synth(drv, rng, tier)
  t_k1s = time.time() - t2
  t2 = time.time()
  dis2, st2, samples2 = k2_end_to_end(drv, rng, tier)
  t_k2 = time.time() - t2
  t2 = time.time()
  dis3, st3 = k3_ranges(rng, tier, progs)
  t_k3 = time.time() - t2
  res.cov["evaluations"] = st0["cases"] + st1["variants"] + st1s["cases"] + st3["variants"]
  res.cov["distinct_nontrivial"] = st0["nontrivial"] + st1["distinct_nontrivial"] + st1s["distinct_nontrivial"]
  res.cov["distribution"] = {"K0_lineset": st0, "K1_filter": st1, "K1_programs": len(progs), "K1s_synthetic": st1s, "K2_end_to_end": st2, "K3_range_spec": st3,
                             "K_wall_s": round(time.time() - t0, 1),
                             "stage_wall_s": {"K0": round(t_k0, 1), "K1": round(t_k1, 1), "K1s": round(t_k1s, 1),
                                              "K2": round(t_k2, 1), "K3": round(t_k3, 1)}}
  res.cov["evaluations"] += st2["vm_runs"]
  res.cov["distinct_nontrivial"] += st2["edits"]
  res.cov["exhaustive"] = False
  res.cov["rule"] = (
      "K0: _LineSet op sequences (every sequence of <=3 (<=4 thorough) start_range calls over lines 0..3, plus "
      "random set_line/start_range/query sequences, 30% non-monotone) vs the Lean LineSet; non-trivial = some line "
      "in and some line out.  K1: generated layout programs x one directive at every line x {trailing, stand-alone} "
      "x directive kinds: real parse + real Director, filter_error asked about 6 error names x every line "
      "(None, 0..n+3) x opcode variants, compared answer by answer (kept/suppressed + final line + exception kind) "
      "with the Lean driver fed the real parser's output; the theorem premise insOk is evaluated on the real "
      "before/after parser output of every eligible edit.  K1s: random synthetic parser outputs through the real "
      "Director.  K2: real io.generate_pyi before/after appending '# pytype: disable=E' / '# type: ignore' to the "
      "reported line of errors of generated error-producing programs: every filter decision of the real run vs the "
      "model, VM error stream and stub unchanged, and the property itself outside the characterised regions.  "
      "K3: 1-4 stand-alone disable/enable comment lines inserted anywhere (also inside multi-line statements) into the "
      "comment-stripped layout programs; real parser + real Director vs a source-level spec that does not use pytype "
      "(suppressed iff the last directive at or before the line naming the class or * is a disable). "
      "distinct_nontrivial = distinct K0 sequences with mixed membership + distinct K1/K1s inputs whose answers contain "
      "both kept and suppressed + K2 edits actually run.")
  res.add_samples(samples2 + [{"K1_program": progs[0]}])
  return dis0 + dis1 + dis1s + dis2 + dis3


# ------------------------------------------------------------------------------------------------
# end-to-end runs on the real VM (K2, W, S)
# ------------------------------------------------------------------------------------------------
_REC = {"installed": False, "director": None, "raw": []}


def _install_recorder():
  """Replaces directors.Director by a recording subclass (harness-side observation; /repo is untouched)."""
  if _REC["installed"]:
    return
  common.load_pytype()
  from pytype.directors import directors

  class RecDirector(directors.Director):

    def __init__(self, *a, **k):
      super().__init__(*a, **k)
      _REC["director"] = self

    def filter_error(self, error):
      before = (error.name, error.line, error.opcode_name, error.filename == self._filename)
      keep = super().filter_error(error)
      _REC["raw"].append(before + (bool(keep), error.line))
      return keep

  directors.Director = RecDirector
  _REC["installed"] = True


def run_vm(src):
  """Real io.generate_pyi.  Returns dict(errors, pyi, raw, po, fr, rets) or dict(crash=...)."""
  _install_recorder()
  from pytype import config, io
  from pytype.directors import parser
  _REC["raw"] = []
  _REC["director"] = None
  with _Capture(parser) as cap:
    try:
      ret, pyi = io.generate_pyi(src, config.Options.create(python_version=(3, 12)))
    except Exception as e:  # pylint: disable=broad-except
      return {"crash": type(e).__name__ + ": " + str(e)[:200]}
    po = cap.last
  d = _REC["director"]
  errs = sorted({(e.name, e.line) for e in ret.context.errorlog.unique_sorted_errors()})
  fr = sorted(d._function_ranges._start_to_end.items()) if d is not None else []  # pylint: disable=protected-access
  return {"errors": errs, "pyi": pyi, "raw": list(_REC["raw"]), "po": po, "fr": fr}


def appendable(src, line, text):
  """Edited source when `text` can be appended to `line` as a trailing comment of a code line, else None."""
  s2 = place(src, line, text, False)
  if s2 is None:
    return None
  import ast as _ast
  try:
    _ast.parse(s2)
  except SyntaxError:
    return None
  toks = comment_tokens(s2)
  if toks is None:
    return None
  want = ("# " + text).replace(" ", "")
  mine = [t for t in toks.get(line, []) if t[1].replace(" ", "").endswith(want)]
  if not mine or mine[-1][2]:
    return None
  return s2


def key_affects(key, name):
  return key == "#ignore" or key == "*" or key == name


def touched_lines(po_after, line, tool, data):
  t = {line}
  for _, s_, _, cs in po_after["groups"]:
    if any(c[0] == line and c[1] == tool and c[2] == data and not c[3] for c in cs):
      t.add(s_)
  return t


def model_actions(drv, po):
  return drv.batch(po_lines(po) + ["d actions"])[0].split(" ")


def classify(before, after, line, key, tool, data, drv=None):
  """The property's own oracle on one edit.  Returns (violations, known_region_hits).

  before/after: run_vm results of the program and of the program with the directive appended to `line`.
  Expected: `after` errors = `before` errors minus the silenced one(s) on `line`, stub identical.  Deviations
  inside the regions characterised by the `_partial` theorems' exceptions are returned as known-region hits."""
  viol, known = [], []
  B, A = set(map(tuple, before["errors"])), set(map(tuple, after["errors"]))
  T = touched_lines(after["po"], line, tool, data)
  clobber = call_clobber_region(before["po"], after["po"], line)
  fr_changed = before["fr"] != after["fr"]
  rets = set(after["po"]["rets"])
  # errors produced through the implicit-return adjustment, by their final (name, line)
  relined = set()
  for run in (before, after):
    for (n, l0, op, same, keep, l1) in run["raw"]:
      if same and n == "bad-return-type" and op in ("RETURN_VALUE", "RETURN_CONST") and l0 not in rets:
        relined.add((n, l1))
  silenced = {(n, l) for (n, l) in B if l == line and key_affects(key, n)}
  still = silenced & A
  if still:
    acts = model_actions(drv, after["po"]) if drv is not None else []
    enable_later = any(a == "set(%s,%d,0)" % (n, line) for (n, _) in still for a in acts)
    if enable_later:
      known.append({"region": "c03-later-enable-wins", "errors": sorted(still)})
    elif clobber:
      known.append({"region": "c03-call-group-clobber", "errors": sorted(still)})
    else:
      viol.append({"kind": "not-silenced", "errors": sorted(still)})
  for (n, l) in sorted((B ^ A) - silenced):
    if l in T and key_affects(key, n) and (n, l) in B:
      known.append({"region": "c03-start-line-also-silenced", "error": [n, l]})
    elif (n, l) in relined and fr_changed:
      known.append({"region": "c03-function-end-moves", "error": [n, l]})
    elif clobber:
      known.append({"region": "c03-call-group-clobber", "error": [n, l]})
    else:
      viol.append({"kind": "other-error-changed", "error": [n, l], "in_before": (n, l) in B})
  if before["pyi"] != after["pyi"]:
    viol.append({"kind": "stub-changed"})
  rb = sorted((r[0], r[1], r[2]) for r in before["raw"])
  ra = sorted((r[0], r[1], r[2]) for r in after["raw"])
  if rb != ra:
    viol.append({"kind": "vm-error-stream-changed", "only_before": [x for x in rb if x not in ra][:3],
                 "only_after": [x for x in ra if x not in rb][:3]})
  return viol, known


K2_KINDS = [("pytype: disable=%s", None), ("type: ignore", "#ignore")]


def _k2_worker(args):
  src, seed_, max_errors = args
  import random
  rng = random.Random(seed_)
  base = run_vm(src)
  out = {"src": src, "base": base, "edits": []}
  if "crash" in base:
    return out
  errs = [e for e in base["errors"] if e[1] and e[0] not in ("invalid-directive", "late-directive")]
  rng.shuffle(errs)
  for (name, line) in errs[:max_errors]:
    for fmt, key in K2_KINDS:
      text = fmt % name if "%s" in fmt else fmt
      s2 = appendable(src, line, text)
      if s2 is None:
        out["edits"].append({"name": name, "line": line, "text": text, "skip": "not-appendable"})
        continue
      after = run_vm(s2)
      tool, data = text.split(":", 1)
      out["edits"].append({"name": name, "line": line, "text": text, "key": key or name, "tool": tool,
                           "data": data.strip(), "src": s2, "after": after})
  return out


def raw_lines(po, raw):
  """driver lines asking the model about every filter decision taken during a real run"""
  L = po_lines(po) + ["d build"]
  for (n, l0, op, same, keep, l1) in raw:
    L.append(q_line(same, op, n, [l0]))
  return L


def raw_expected(raw):
  return ["ok"] + [("K" if keep else "S") + ("N" if l1 is None else str(l1)) for (n, l0, op, same, keep, l1) in raw]


def k2_end_to_end(drv, rng, tier, progs=None):
  n = 36 if tier == "quick" else 400
  family = progs is None
  if progs is None:
    progs, seen = [], set()
    while len(progs) < n:
      s = c03_gen.gen_error_program(rng)
      if s not in seen:
        seen.add(s)
        progs.append(s)
  # few workers in quick: a worker's first VM run costs ~3 s of imports/loader warm-up, later ones ~0.3 s
  jobs = [(s, rng.randrange(1 << 30), 2 if tier == "quick" else 5) for s in progs]
  if family:
    jobs = [(s, 0, 99) for s in c03_gen.FAMILY] + jobs
    progs = list(c03_gen.FAMILY) + list(progs)
  with multiprocessing.Pool(min(8 if tier == "quick" else 16, os.cpu_count() or 4)) as pool:
    results = pool.map(_k2_worker, jobs, chunksize=1)
  dis = []
  st = {"programs": len(progs), "programs_with_errors": 0, "vm_runs": 0, "edits": 0, "not_appendable": 0,
        "filter_decisions_compared": 0, "vm_crashes": 0, "known_region_hits": {}, "error_classes": {},
        "edits_exact": 0, "multi_line_statement_edits": 0}
  samples = []
  for r in results:
    st["vm_runs"] += 1
    if "crash" in r["base"]:
      st["vm_crashes"] += 1
      continue
    if r["base"]["errors"]:
      st["programs_with_errors"] += 1
    runs = [(r["src"], r["base"])]
    for e in r["edits"]:
      if "skip" in e:
        st["not_appendable"] += 1
        continue
      st["vm_runs"] += 1
      if "crash" in e["after"]:
        dis.append({"stage": "K2", "what": "VM crashed on the edited program", "src": e["src"], "crash": e["after"]["crash"]})
        continue
      runs.append((e["src"], e["after"]))
    # (iii) every filter decision taken in the real runs vs the model
    flat, exp = [], []
    for s_, run in runs:
      flat += raw_lines(run["po"], run["raw"])
      exp.append(raw_expected(run["raw"]))
    out = drv.batch(flat)
    pos = 0
    for (s_, run), ex in zip(runs, exp):
      mod = out[pos:pos + len(ex)]
      pos += len(ex)
      st["filter_decisions_compared"] += len(ex) - 1
      if mod != ex:
        bad = [i for i in range(len(ex)) if i >= len(mod) or mod[i] != ex[i]][0]
        dis.append({"stage": "K2-filter", "src": s_, "raw_error": run["raw"][bad - 1] if bad else "build",
                    "real": ex[bad], "model": mod[bad] if bad < len(mod) else None})
    # (iv) the property itself
    for e in r["edits"]:
      if "skip" in e or "crash" in e["after"]:
        continue
      st["edits"] += 1
      st["error_classes"][e["name"]] = st["error_classes"].get(e["name"], 0) + 1
      viol, known = classify(r["base"], e["after"], e["line"], e["key"], e["tool"], e["data"], drv)
      if any(g[0] == "L" and g[1] <= e["line"] <= g[2] and g[1] != g[2] for g in e["after"]["po"]["groups"]):
        st["multi_line_statement_edits"] += 1
      for k in known:
        st["known_region_hits"][k["region"]] = st["known_region_hits"].get(k["region"], 0) + 1
      if not viol and not known:
        st["edits_exact"] += 1
      if viol:
        dis.append({"stage": "K2-property", "src": r["src"], "line": e["line"], "directive": e["text"],
                    "before": r["base"]["errors"], "after": e["after"]["errors"], "violations": viol})
      if len(samples) < 3 and (known or e["line"] > 12):
        samples.append({"program": r["src"], "appended_to_line": e["line"], "directive": e["text"],
                        "errors_before": r["base"]["errors"], "errors_after": e["after"]["errors"],
                        "known_region": known})
  return dis, st, samples


# ------------------------------------------------------------------------------------------------
# W: known findings
# ------------------------------------------------------------------------------------------------
def witnesses(res):
  known, _ = common.known_findings("C03")
  drv = common.Driver("drv_c03")
  replayed = []
  for k in known:
    w = k["witness"]
    s2 = appendable(w["src"], w["line"], w["directive"])
    if s2 is None:
      res.violation("witness-" + k["id"], {"property": "C03", "kind": "witness-not-replayable", "entry": k})
      continue
    before, after = run_vm(w["src"]), run_vm(s2)
    if "crash" in before or "crash" in after:
      res.violation("witness-" + k["id"], {"property": "C03", "kind": "witness-crashes", "entry": k,
                                           "before": before, "after": after})
      continue
    tool, data = w["directive"].split(":", 1)
    key = "#ignore" if tool.strip() == "type" else data.strip().split("=", 1)[1]
    viol, hits = classify(before, after, w["line"], key, tool.strip(), data.strip(), drv)
    regions = {h["region"] for h in hits}
    still = k["id"] in regions
    replayed.append({"id": k["id"], "still_fails": still, "errors_before": before["errors"],
                     "errors_after": after["errors"]})
    if still:
      res.known_lines.append(k["what"])
    if viol:
      res.violation("witness-" + k["id"], {"property": "C03", "kind": "failing-input", "input": {
          "src": w["src"], "line": w["line"], "directive": w["directive"], "before": before["errors"],
          "after": after["errors"], "violations": viol}})
  res.cov["witnesses_replayed"] = replayed


# ------------------------------------------------------------------------------------------------
# S: failing-input search with the property's own oracles on the real code
# ------------------------------------------------------------------------------------------------
def _s_end_to_end(args):
  """Oracle A: before/after on the real VM for every error of `src`."""
  src, max_errors = args
  base = run_vm(src)
  found = []
  if "crash" in base:
    return found
  for (name, line) in base["errors"][:max_errors]:
    if not line or name in ("invalid-directive", "late-directive"):
      continue
    for fmt, key in K2_KINDS:
      text = fmt % name if "%s" in fmt else fmt
      s2 = appendable(src, line, text)
      if s2 is None:
        continue
      after = run_vm(s2)
      if "crash" in after:
        found.append({"oracle": "end-to-end", "src": src, "line": line, "directive": text, "crash": after["crash"]})
        continue
      tool, data = text.split(":", 1)
      drv = common.Driver("drv_c03")
      viol, _ = classify(base, after, line, key or name, tool, data.strip(), drv)
      if viol:
        found.append({"oracle": "end-to-end before/after", "src": src, "line": line, "directive": text,
                      "errors_before": base["errors"], "errors_after": after["errors"], "violations": viol})
  return found


def spec_standalone(src_lines, directives, name, line):
  """Independent oracle for stand-alone directives of a comment-free program: `directives` is a list of
  (line, disable?, names) in file order; (name, line) is suppressed iff the last directive at or before
  `line` naming `name` (or *) per class is a disable, for the class itself or for `*`."""
  def last(n):
    state = False
    for (l, dis, names) in directives:
      if l <= line and n in names:
        state = dis
    return state
  return last(name) or last("*")


def _s_filter_level(args):
  """Oracle B: the property evaluated on the real Director's filter (no VM, no model)."""
  src, seed_ = args
  import random
  import ast as _ast
  common.load_pytype()
  from pytype.directors import directors, parser
  from pytype.errors import errors
  mods = (directors, parser, errors)
  rng = random.Random(seed_)
  found = []
  nlines = src.count("\n")
  grid = list(range(1, nlines + 3))
  names = ["name-error", "wrong-arg-types", "attribute-error", "bad-return-type", "import-error"]
  with _Capture(parser) as cap:
    try:
      d0, po0 = build_real(mods, src, (), cap)
    except Exception:  # pylint: disable=broad-except
      return found
    if d0 == "ValueError":
      return found
    has_directives = any(cs for _, _, _, cs in po0["groups"])

    def answers(d):
      res = {}
      for n in names:
        ops = [None, "RETURN_VALUE", "CALL"] if n == "bad-return-type" else [None]
        for op in ops:
          res[(n, op)] = real_query(errors, d, True, op, n, grid).split(" ")
      return res
    a0 = answers(d0)
    # (1) re-lining only for implicit returns
    rets = set(po0["rets"])
    for (n, op), ans in a0.items():
      for l, a in zip(grid, ans):
        if a[0] in "KS" and int(a[1:]) != l and not (n == "bad-return-type" and op in ("RETURN_VALUE", "RETURN_CONST")
                                                    and l not in rets):
          found.append({"oracle": "filter re-lines only implicit returns", "src": src,
                        "error": [n, l, op], "line_after_filter": int(a[1:])})
          return found
    # (2) trailing directive on every code line
    for ln in range(1, nlines + 1):
      for text, key in [("pytype: disable=" + rng.choice(names), None), ("type: ignore", "#ignore")]:
        s2 = appendable(src, ln, text)
        if s2 is None:
          continue
        d1, po1 = build_real(mods, s2, (), cap)
        if d1 == "ValueError":
          found.append({"oracle": "trailing directive must not crash the Director", "src": s2})
          return found
        tool, data = text.split(":", 1)
        data = data.strip()
        key = key or data.split("=", 1)[1]
        T = touched_lines(po1, ln, tool, data)
        clobber = call_clobber_region(po0, po1, ln)
        fr_changed = sorted(d0._function_ranges._start_to_end.items()) != sorted(d1._function_ranges._start_to_end.items())  # pylint: disable=protected-access
        a1 = answers(d1)
        for (n, op), ans in a1.items():
          cand = n == "bad-return-type" and op in ("RETURN_VALUE", "RETURN_CONST")
          for l, x0, x1 in zip(grid, a0[(n, op)], ans):
            if x0[0] == "X" or x1[0] == "X":
              continue
            if l == ln and key_affects(key, n) and not cand:
              if x1[0] != "S" and not clobber and not has_directives:
                found.append({"oracle": "directive on line L silences (E, L)", "src": s2, "line": ln,
                              "directive": text, "error": [n, l, op], "filter_answer": x1})
                return found
            elif x0 != x1 and not (l in T and key_affects(key, n)) and not (cand and fr_changed) and not clobber \
                and not (cand and int(x1[1:]) in T and key_affects(key, n)):
              found.append({"oracle": "directive changes nothing else", "src": s2, "line": ln, "directive": text,
                            "error": [n, l, op], "before": x0, "after": x1})
              return found
    # (3) stand-alone ranges on comment-free programs
    if not has_directives:
      for _ in range(6):
        l1 = rng.randrange(1, nlines + 2)
        l2 = rng.randrange(l1, nlines + 2)
        nm = rng.choice(names + ["*"])
        s2 = place(src, l2, "pytype: enable=" + nm, True) if rng.random() < 0.7 else src
        s2 = place(s2, l1, "pytype: disable=" + nm, True)
        try:
          _ast.parse(s2)
        except SyntaxError:
          continue
        toks = comment_tokens(s2) or {}
        dirs = []
        for l in sorted(toks):
          for (_, t, oe) in toks[l]:
            if oe and "pytype:" in t:
              dirs.append((l, "disable=" in t, {nm}))
        if len(dirs) != (2 if s2.count("pytype:") == 2 else 1):
          continue
        d1, po1 = build_real(mods, s2, (), cap)
        if d1 == "ValueError":
          found.append({"oracle": "ascending stand-alone directives must not crash the Director", "src": s2})
          return found
        n2 = s2.count("\n")
        for n in names:
          for l in range(1, n2 + 2):
            got = real_query(errors, d1, True, None, n, [l])
            want = spec_standalone(None, dirs, n, l)
            if got[0] in "KS" and (got[0] == "S") != want:
              found.append({"oracle": "stand-alone disable holds from its line to the matching enable / EOF and "
                            "nowhere else", "src": s2, "error": [n, l], "expected_suppressed": want,
                            "filter_answer": got})
              return found
        # (4) the same program analysed with two error classes disabled for the whole file (the `disable` option): a
        # class disabled globally is suppressed from line 0 on, a stand-alone enable/disable of ONE class changes that
        # class only
        if nm != "*":
          gl = rng.sample(names, 2)
          if rng.random() < 0.6 and nm not in gl:
            gl[0] = nm
          d2, _ = build_real(mods, s2, gl, cap)
          if d2 == "ValueError":
            continue
          dirs_g = [(0, True, {g}) for g in gl] + dirs
          for n in names:
            for l in range(1, n2 + 2):
              got = real_query(errors, d2, True, None, n, [l])
              want = spec_standalone(None, dirs_g, n, l)
              if got[0] in "KS" and (got[0] == "S") != want:
                found.append({"oracle": "with error classes disabled for the whole file (option disable=%s) a stand-alone "
                              "directive changes only the class it names" % ",".join(gl), "src": s2, "options_disable": gl,
                              "error": [n, l], "expected_suppressed": want, "filter_answer": got})
                return found
  return found


def strip_comments(src):
  """`src` without any comment (tokenize based), or None"""
  toks = comment_tokens(src)
  if toks is None:
    return None
  lines = src.split("\n")
  for l, cs in toks.items():
    col = min(c[0] for c in cs)
    lines[l - 1] = lines[l - 1][:col].rstrip()
  out = "\n".join(lines)
  try:
    import ast as _ast
    _ast.parse(out)
  except SyntaxError:
    return None
  return out


def _k3_worker(args):
  """K3: the second sentence of the property on the real parser + real Director, against a source-level spec that
  does not use pytype: several stand-alone disable/enable directives are inserted as comment-only lines anywhere
  in a comment-free program (also between the lines of one multi-line statement); for every error name and every
  line the real filter must suppress exactly when the last directive at or before the line naming the class
  (or *) is a disable."""
  src, seed_, n_variants = args
  import random
  import ast as _ast
  common.load_pytype()
  from pytype.directors import directors, parser
  from pytype.errors import errors
  mods = (directors, parser, errors)
  rng = random.Random(seed_)
  names = ["name-error", "wrong-arg-types", "attribute-error", "import-error"]
  out = {"variants": 0, "queries": 0, "inside_statement": 0, "found": []}
  src = strip_comments(src)
  if src is None:
    return out
  nlines = src.count("\n")
  with _Capture(parser) as cap:
    for _ in range(n_variants):
      k = rng.choice([1, 2, 2, 3, 4])
      ls = sorted(rng.randrange(1, nlines + 2) for _ in range(k))
      s2, dirs_txt = src, []
      nm = rng.choice(names + ["*"])
      for j, l in enumerate(reversed(ls)):          # insert bottom-up so earlier line numbers stay valid
        n_here = nm if rng.random() < 0.8 else rng.choice(names + ["*"])
        dis = rng.random() < 0.6
        s2 = place(s2, l, "pytype: %s=%s" % ("disable" if dis else "enable", n_here), True)
      try:
        _ast.parse(s2)
      except SyntaxError:
        continue
      toks = comment_tokens(s2) or {}
      dirs = []
      for l in sorted(toks):
        for (_, t, oe) in toks[l]:
          if oe and "pytype:" in t:
            body = t.split("pytype:", 1)[1].strip()
            dirs.append((l, body.startswith("disable="), {body.split("=", 1)[1]}))
      if len(dirs) != k:
        continue
      try:
        d1, po1 = build_real(mods, s2, (), cap)
      except Exception as e:  # pylint: disable=broad-except
        out["found"].append({"oracle": "stand-alone directives in ascending line order must not crash the Director",
                             "src": s2, "exception": repr(e)[:200]})
        return out
      if d1 == "ValueError":
        out["found"].append({"oracle": "stand-alone directives in ascending line order must not crash the Director",
                             "src": s2})
        return out
      out["variants"] += 1
      if any(g[0] == "L" and g[1] < l <= g[2] for g in po1["groups"] for (l, _, _) in dirs):
        out["inside_statement"] += 1
      n2 = s2.count("\n")
      for n in names:
        got_all = real_query(errors, d1, True, None, n, list(range(1, n2 + 2))).split(" ")
        for l, got in zip(range(1, n2 + 2), got_all):
          out["queries"] += 1
          want = spec_standalone(None, dirs, n, l)
          if got[0] in "KS" and (got[0] == "S") != want:
            out["found"].append({"oracle": "stand-alone disable holds from its line to the matching enable / EOF "
                                 "and nowhere else", "src": s2, "error": [n, l], "expected_suppressed": want,
                                 "filter_answer": got, "directives": [[a, b, sorted(c)] for a, b, c in dirs]})
            return out
  return out


def k3_ranges(rng, tier, progs):
  with multiprocessing.Pool(min(16, os.cpu_count() or 4)) as pool:
    outs = pool.map(_k3_worker, [(s, rng.randrange(1 << 30), 6 if tier == "quick" else 20) for s in progs], chunksize=1)
  st = {"programs": len(progs), "variants": sum(o["variants"] for o in outs), "queries": sum(o["queries"] for o in outs),
        "variants_with_directive_inside_a_statement": sum(o["inside_statement"] for o in outs)}
  dis = [dict(f, stage="K3-range-spec") for o in outs for f in o["found"]]
  return dis, st


def _lineset_spec_search(rng):
  """Oracle C: _LineSet against the specification (explicit entries win; monotone start_range sequences give
  'last call at or before l'; ValueError iff below the last transition)."""
  common.load_pytype()
  from pytype.directors import directors
  for _ in range(3000):
    calls = []
    cur = 0
    for _ in range(rng.randrange(1, 7)):
      cur += rng.choice([0, 1, 2])
      calls.append((cur, rng.random() < 0.5))
    ls = directors._LineSet()  # pylint: disable=protected-access
    sets = {}
    try:
      for (l, m) in calls:
        ls.start_range(l, m)
    except ValueError:
      return [{"oracle": "monotone start_range never raises", "calls": calls}]
    for _ in range(rng.randrange(0, 3)):
      l, m = rng.randrange(0, cur + 2), rng.random() < 0.5
      ls.set_line(l, m)
      sets[l] = m
    for l in range(0, cur + 3):
      want = sets[l] if l in sets else ([m for (x, m) in calls if x <= l] or [False])[-1]
      if (l in ls) != want:
        return [{"oracle": "_LineSet membership = explicit entry, else last start_range call at or before the line",
                 "start_range_calls": calls, "set_line": sets, "line": l, "expected": want, "got": l in ls}]
  return []


def search(res, rng, disagreements, pfail):
  found = []   # (finding, base source or None, evaluator)
  srcs = []
  for d in disagreements:
    if d.get("src") and d["src"] not in srcs:
      srcs.append(d["src"])
  srcs = srcs[:40]
  extra_err = [c03_gen.gen_error_program(rng) for _ in range(80)]
  extra_lay = [c03_gen.gen_layout_program(rng, 18) for _ in range(120)]
  for f in _lineset_spec_search(rng):
    found.append((f, None, None))
  seed_ = rng.randrange(1 << 30)
  with multiprocessing.Pool(min(16, os.cpu_count() or 4)) as pool:
    if not found:
      cands = srcs + extra_lay + extra_err
      for src, r in zip(cands, pool.imap(_s_filter_level, [(s, seed_) for s in cands])):
        found += [(f, src, "filter") for f in r]
        if len(found) >= 3:
          break
    if len(found) < 3:
      cands = srcs + extra_err
      for src, r in zip(cands, pool.imap(_s_end_to_end, [(s, 4) for s in cands])):
        found += [(f, src, "e2e") for f in r]
        if len(found) >= 3:
          break
    pool.terminate()
  found.sort(key=lambda f: len(f[1] or ""))
  return [shrink_failing(f, src, how, seed_) for (f, src, how) in found[:3]]


def shrink_failing(f, src, how, seed_):
  """ddmin over the lines of the base program, re-evaluating the same oracle on the real code."""
  if src is None:
    return f
  import ast as _ast

  def evaluate(lines):
    s = "\n".join(lines) + "\n"
    try:
      _ast.parse(s)
    except SyntaxError:
      return []
    r = _s_filter_level((s, seed_)) if how == "filter" else _s_end_to_end((s, 4))
    return [x for x in r if x.get("oracle") == f.get("oracle")]
  lines = src.split("\n")[:-1]
  small = common.ddmin(lines, lambda ls: bool(evaluate(ls)), budget_s=25.0 if how == "filter" else 40.0)
  r = evaluate(small)
  if r:
    g = dict(r[0])
    g["shrunk_from_lines"] = len(lines)
    return g
  return f


def main():
  from translate import director_sets
  director_sets.main()
  return common.run_check(
      "C03", REQUIRED, correspond, witnesses, search, extra_targets=("drv_c03",),
      trusted=[
          "hand-written model of directors.py (_LineSet, Director._process_*, _BlockRanges, filter_error); its input is "
          "the real parser's output, so parser.py/ast/tokenize are inside the correspondence but outside the proofs",
          "bisect.bisect / bisect_left (CPython) modelled by their specification on sorted lists; sortedness of "
          "_transitions is proved (transitions_sorted), _starts is sorted() by construction",
          "translate/director_sets.py (error-name tables regenerated from the tree under test)",
          "the relation 'P' is P plus one directive' (AddComment / insOk) describes how the real parser's output "
          "changes; it is measured on every K1 edit, not proved",
      ],
      assumptions=[
          "the VM's error positions are outside the model: the end-to-end claim (error list and stub unchanged) is "
          "correspondence on generated programs only (K2)",
          "generated programs import only builtins and typing (typeshed is empty in this sandbox)",
      ])


if __name__ == "__main__":
  sys.exit(main())
