#!/bin/bash
# Runs pytype's own (upstream) test modules natively in a scratch worktree of /repo (the pinned baseline cannot import
# the VM because the C++ extension is not built in /repo).  Used to validate `fix:` commits: the set of failing tests
# must be the same before and after.
#   harness/upstream.sh <out.txt> [git-ref|WORKTREE] [pytest paths...]     (default ref: working tree of /repo)
# Writes one line per test id with its outcome to <out.txt>.  The worktree is removed afterwards.
set -u
OUT="$1"; REF="${2:-WORKTREE}"; shift; shift || true
PATHS="${*:-pytype/pytd pytype/pyi pytype/tests pytype/abstract pytype/vm_test.py pytype/load_pytd_test.py pytype/matcher_test.py pytype/convert_test.py pytype/io_test.py pytype/directors pytype/errors pytype/typegraph pytype/tools pytype/blocks}"
cd "$(dirname "$0")/.."
WT=/tmp/upstream_wt.$$
git -C /repo worktree remove --force "$WT" 2>/dev/null
if [ "$REF" = WORKTREE ]; then
  git -C /repo worktree add --detach "$WT" HEAD >/dev/null 2>&1 || exit 2
  git -C /repo diff HEAD | git -C "$WT" apply --allow-empty 2>/dev/null
else
  git -C /repo worktree add --detach "$WT" "$REF" >/dev/null 2>&1 || exit 2
fi
SO=$(PYTYPE_REPO="$WT" /venv/bin/python -c "
import sys; sys.path.insert(0, '.')
from harness import common
print(common.ensure_ext())") || exit 2
cp "$SO" "$WT/pytype/typegraph/"
( cd "$WT" && /venv/bin/python -m pytest -q -p no:cacheprovider -n 16 --timeout=900 --continue-on-collection-errors \
    --junitxml=/tmp/upstream.$$.xml $PATHS > /tmp/upstream.$$.log 2>&1 )
/venv/bin/python - "$OUT" /tmp/upstream.$$.xml <<'PY'
import sys, xml.etree.ElementTree as ET
out = []
for tc in ET.parse(sys.argv[2]).getroot().iter('testcase'):
    st = 'pass'
    for c in tc:
        if c.tag in ('failure', 'error', 'skipped'):
            st = c.tag
    out.append('%s::%s %s' % (tc.get('classname'), tc.get('name'), st))
out.sort()
open(sys.argv[1], 'w').write('\n'.join(out) + '\n')
import collections
print(collections.Counter(l.rsplit(' ', 1)[1] for l in out))
PY
tail -3 /tmp/upstream.$$.log
rm -f /tmp/upstream.$$.xml /tmp/upstream.$$.log
git -C /repo worktree remove --force "$WT"
