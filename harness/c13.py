"""C13 — calls bind arguments exactly as CPython does (DESIGN.md §5 C13).

P  lake build Props.C13 + axiom audit.
K1 Lean spec `cpyBind` vs the running CPython (really calling the function AND
   `inspect.signature(f).bind`) over the property's space: <=3 parameters of each kind, defaults on
   any suffix, <=5 positionals, keyword sets of <=3 names from the parameter names + one foreign name.
K2 Lean model `mapArgs`/`mapArgsBound` vs the real pytype VM on a seeded sample of generated modules
   (plain functions, methods, classmethods, staticmethods, constructors): error class per call line
   and, for successful calls, which argument every parameter (and *args / **kwargs) received.
W  replay of the fixed witness c13-posonly-kwargs (must pass) and of the known finding
   c13-receiver-dropped-no-positional (KNOWN-FINDING line while it still fails).
S  CPython (really calling) vs real pytype, around the disagreeing inputs, with shrinking.
"""
import ast
import inspect
import itertools
import multiprocessing
import os
import random
import re
import subprocess
import sys
import time

from harness import common

REQUIRED = [
    "outcome_same", "bind_ok_iff", "bind_err_iff", "bind_same", "cpy_binds_every_name",
    "wrongArgCount_exact", "missing_exact", "keyword_error_iff", "err_kind_not_always_same",
    "method_bind", "method_bind_posonly",
    "bound_outcome_same_not_full", "bound_same_not_full", "bound_outcome_same_partial", "bound_same_partial",
    "kw_register_spec", "kw_register_overwritten",
    "pytd_ok_iff_interp", "pytd_bind_ok_iff", "pytd_bind_same", "pytd_error_class_differs",
]

KINDS = ["func", "method", "classmethod", "staticmethod", "init"]
BOUND = ("method", "classmethod", "init")
NPROC = min(16, os.cpu_count() or 4)

PY_ERR = {  # pytype error name -> model error kind
    "duplicate-keyword-argument": "duplicateKeyword", "wrong-keyword-args": "wrongKeywordArgs",
    "missing-parameter": "missingParameter", "wrong-arg-count": "wrongArgCount"}
M_CLASS = {"duplicateKeyword": "keyword", "wrongKeywordArgs": "keyword",
           "missingParameter": "arity", "wrongArgCount": "arity"}
C_CLASS = {"multipleValues": "keyword", "unexpectedKeyword": "keyword", "posonlyAsKeyword": "keyword",
           "tooManyPositional": "arity", "missingPositional": "arity", "missingKwonly": "arity"}


# ----------------------------------------------------------------------------
# shapes
# ----------------------------------------------------------------------------
def mk_sig(posonly=(), poskw=(), varargs=None, kwonly=(), kwargs=None, defaults=()):
  return {"posonly": list(posonly), "poskw": list(poskw), "varargs": varargs, "kwonly": list(kwonly),
          "kwargs": kwargs, "defaults": sorted(defaults)}


def all_names(sig):
  return (sig["posonly"] + sig["poskw"] + ([sig["varargs"]] if sig["varargs"] else []) + sig["kwonly"]
          + ([sig["kwargs"]] if sig["kwargs"] else []))


def params_src(sig, default_of=lambda n: "d_" + n):
  ds = set(sig["defaults"])
  out = []
  for n in sig["posonly"]:
    out.append(n + ("=" + default_of(n) if n in ds else ""))
  if sig["posonly"]:
    out.append("/")
  for n in sig["poskw"]:
    out.append(n + ("=" + default_of(n) if n in ds else ""))
  if sig["varargs"]:
    out.append("*" + sig["varargs"])
  elif sig["kwonly"]:
    out.append("*")
  for n in sig["kwonly"]:
    out.append(n + ("=" + default_of(n) if n in ds else ""))
  if sig["kwargs"]:
    out.append("**" + sig["kwargs"])
  return ", ".join(out)


def ret_tuple_src(sig, first=None, capture=()):
  """the callee's frame as a tuple; parameters in `capture` are read through a closure (`(lambda: p)()`), which makes
  them cell variables of the callee"""
  names = ([first] if first else []) + all_names(sig)
  if not names:
    return "()"
  names = ["(lambda: %s)()" % n if n in capture else n for n in names]
  return "(" + ", ".join(names) + ("," if len(names) == 1 else "") + ")"


CALL_STYLES = ("plain", "plain", "plain", "star", "dstar", "both", "empty", "estar", "estar2")


def args_src(call, style="plain"):
  """the call's arguments; the styles spell the SAME call with literal unpacking: positionals as `*(p0, p1)`, keywords
  as `**{'k': v}`, or an empty `**{}` appended — CPython binds all of them exactly like the plain spelling"""
  npos, kws = call
  pos = ["p%d" % i for i in range(npos)]
  kw = ["%s=k_%s" % (k, k) for k in kws]
  if style in ("star", "both") and pos:
    pos = ["*(%s,)" % ", ".join(pos)]
  if style in ("dstar", "both") and kws:
    kw = ["**{%s}" % ", ".join("'%s': k_%s" % (k, k) for k in kws)]
  if style == "empty":
    kw = kw + ["**{}"]
  if style == "estar":     # an empty literal tuple unpacked behind the positionals: `f(p0, *())`, `f(*(), k=v)`
    pos = pos + ["*()"]
  if style == "estar2":    # the same through a module-level name (`E_ = ()` is defined by module_source)
    pos = pos + ["*E_"]
  return ", ".join(pos + kw)


def call_repr(kind, sig, call):
  return "%s: def f(%s); f(%s)" % (kind, params_src(sig, lambda n: "..."), args_src(call))


def driver_lines(sig, calls, bound):
  """-> (lines, code->name).  Names are interned per signature."""
  names = list(all_names(sig))
  for _, kws in calls:
    for k in kws:
      if k not in names:
        names.append(k)
  for d in sig["defaults"]:
    if d not in names:
      names.append(d)
  code = {n: i for i, n in enumerate(names)}

  def lst(xs):
    return ",".join(str(code[x]) for x in xs) if xs else "-"
  lines = ["sig %s %s %s %s %s %s" % (
      lst(sig["posonly"]), lst(sig["poskw"]), code[sig["varargs"]] if sig["varargs"] else "-",
      lst(sig["kwonly"]), code[sig["kwargs"]] if sig["kwargs"] else "-", lst(sig["defaults"]))]
  for (npos, kws), b in zip(calls, bound):
    lines.append("%s %d %s" % ("b" if b else "c", npos, lst(kws)))
  return lines, names


_REF = re.compile(r"^(\d+):(.*)$")


def decode_side(text, names, sort_dict):
  """driver side text -> ('ok', 'name:ref …') | ('err', kind)"""
  text = text.strip()
  if text.startswith("err "):
    return ("err", text[4:])
  if not text.startswith("ok"):
    return ("bad", text)
  out = []
  for w in text[2:].split():
    m = _REF.match(w)
    n, r = names[int(m.group(1))], m.group(2)
    if r.startswith("K"):
      r = "K" + names[int(r[1:])]
    elif r.startswith("M["):
      ks = [names[int(x)] for x in r[2:-1].split(";") if x]
      if sort_dict:
        ks.sort()
      r = "M[" + ";".join(ks) + "]"
    out.append(n + ":" + r)
  return ("ok", " ".join(out))


def decode_line(line, names, sort_dict):
  if " | " not in line:
    return ("bad", line), ("bad", line)
  m, s = line.split(" | ", 1)
  return decode_side(m, names, sort_dict), decode_side(s, names, sort_dict)


# ----------------------------------------------------------------------------
# CPython oracle: really define and call
# ----------------------------------------------------------------------------
class _Sent:
  __slots__ = ("tag",)

  def __init__(self, tag):
    self.tag = tag


_MSG = [
    (re.compile(r"takes .* positional arguments? but"), "tooManyPositional"),
    (re.compile(r"takes no arguments"), "tooManyPositional"),
    (re.compile(r"got multiple values for (keyword )?argument"), "multipleValues"),
    (re.compile(r"got an unexpected keyword argument"), "unexpectedKeyword"),
    (re.compile(r"positional-only arguments? passed as keyword"), "posonlyAsKeyword"),
    (re.compile(r"missing \d+ required positional"), "missingPositional"),
    (re.compile(r"missing \d+ required keyword-only"), "missingKwonly"),
]


def classify_typeerror(msg):
  for rx, k in _MSG:
    if rx.search(msg):
      return k
  return "other:" + msg[:80]


def cpy_define(kind, sig):
  """-> callable taking (posargs, kwargs) and returning the tuple of the callee's names."""
  ns = {("d_" + n): _Sent("D") for n in sig["defaults"]}
  ps = params_src(sig)
  if kind == "func":
    exec("def f(%s):\n  return %s\n" % (ps, ret_tuple_src(sig)), ns)
    f = ns["f"]
    return lambda a, k: f(*a, **k), None
  deco = {"classmethod": "  @classmethod\n", "staticmethod": "  @staticmethod\n"}.get(kind, "")
  if kind == "init":
    # the callee stores its frame in a holder object (the first parameter need not be `self`)
    exec("class _H: pass\nV = _H()\nclass C:\n  def __init__(%s):\n    V.v = %s\n" % (ps, ret_tuple_src(sig)), ns)
    cls = ns["C"]

    def run(a, k):
      ns["V"].v = None
      run.recv = None
      o = cls.__new__(cls)
      run.recv = o
      o.__init__(*a, **k)
      return ns["V"].v
    return run, "inst"
  exec("class C:\n%s  def m(%s):\n    return %s\n" % (deco, ps, ret_tuple_src(sig)), ns)
  cls = ns["C"]
  o = cls()
  if kind == "method":
    run = lambda a, k: o.m(*a, **k)
    run.recv = o
    return run, "inst"
  if kind == "classmethod":
    run = lambda a, k: cls.m(*a, **k)
    run.recv = cls
    return run, "cls"
  run = lambda a, k: o.m(*a, **k)   # staticmethod through the instance
  return run, None


def cpy_canon(sig, values, pos, kwv, recv, sort_dict):
  ids = {id(v): "P%d" % i for i, v in enumerate(pos)}
  for k, v in kwv.items():
    ids[id(v)] = "K" + k
  if recv is not None:
    ids[id(recv)] = "R"
  out = []
  for n, v in zip(all_names(sig), values):
    if n == sig["varargs"]:
      r = "T[" + ";".join(ids.get(id(x), "?").lstrip("P") for x in v) + "]"
    elif n == sig["kwargs"]:
      ks = list(v.keys())
      ok = all(ids.get(id(x)) == "K" + kk for kk, x in v.items())
      if sort_dict:
        ks.sort()
      r = "M[" + ";".join(ks) + "]" + ("" if ok else "!")
    elif isinstance(v, _Sent) and v.tag == "D":
      r = "D"
    else:
      r = ids.get(id(v), "?")
    out.append(n + ":" + r)
  return " ".join(out)


def cpy_oracle(kind, sig, call, sort_dict, run=None):
  """CPython's verdict by really calling: ('ok', view) | ('err', kind)."""
  if run is None:
    run, _ = cpy_define(kind, sig)
  npos, kws = call
  pos = [_Sent("P") for _ in range(npos)]
  kwv = {k: _Sent("K") for k in kws}
  try:
    values = run(pos, kwv)
  except TypeError as e:
    return ("err", classify_typeerror(str(e)))
  recv = getattr(run, "recv", None)
  return ("ok", cpy_canon(sig, values, pos, kwv, recv, sort_dict))


def bind_oracle(sig, call, f):
  """inspect.signature(f).bind: ('ok', view) | ('err', 'TypeError')."""
  npos, kws = call
  pos = [_Sent("P") for _ in range(npos)]
  kwv = {k: _Sent("K") for k in kws}
  try:
    ba = inspect.signature(f).bind(*pos, **kwv)
  except TypeError:
    return ("err", "TypeError")
  ba_args = ba.arguments
  values = []
  for n in all_names(sig):
    if n in ba_args:
      values.append(ba_args[n])
    elif n == sig["varargs"]:
      values.append(())
    elif n == sig["kwargs"]:
      values.append({})
    else:
      values.append(_Sent("D"))
  return ("ok", cpy_canon(sig, values, pos, kwv, None, False))


# ----------------------------------------------------------------------------
# K1: Lean spec vs CPython, exhaustive over the property's space
# ----------------------------------------------------------------------------
PO, PK, KO = ["x0", "x1", "x2"], ["a0", "a1", "a2"], ["k0", "k1", "k2"]


def enum_sigs():
  for npo in range(4):
    for npk in range(4):
      pos = PO[:npo] + PK[:npk]
      for ndef in range(len(pos) + 1):
        pdef = pos[len(pos) - ndef:]
        for nko in range(4):
          ko = KO[:nko]
          for kmask in range(1 << nko):
            kdef = [ko[i] for i in range(nko) if kmask >> i & 1]
            for va in (None, "va"):
              for kw in (None, "kws"):
                yield mk_sig(PO[:npo], PK[:npk], va, ko, kw, pdef + kdef)


def enum_calls(sig, rng, perms, star_names):
  pool = sig["posonly"] + sig["poskw"] + sig["kwonly"] + ["zz"]
  if star_names:
    pool += [n for n in (sig["varargs"], sig["kwargs"]) if n]
  for npos in range(6):
    for r in range(4):
      for ks in itertools.combinations(pool, r):
        if perms and r >= 2:
          for p in itertools.permutations(ks):
            yield (npos, list(p))
        else:
          ks = list(ks)
          if r >= 2:
            rng.shuffle(ks)
          yield (npos, ks)


def _k1_worker(job):
  sigs, seed, perms, star_names, drv_path = job
  rng = random.Random(seed)
  lines, meta = [], []
  for sig in sigs:
    calls = list(enum_calls(sig, rng, perms, star_names))
    ls, names = driver_lines(sig, calls, [False] * len(calls))
    lines += ls
    meta.append((sig, calls, names))
  r = subprocess.run([drv_path], input="\n".join(lines) + "\n", stdout=subprocess.PIPE, text=True)
  out = r.stdout.split("\n")
  pos = 0
  n = nontrivial = 0
  okc = errc = bind_quirk = 0
  kinds = {}
  dis = []
  for sig, calls, names in meta:
    run, _ = cpy_define("func", sig)
    ns = {("d_" + d): _Sent("D") for d in sig["defaults"]}
    exec("def f(%s):\n  return %s\n" % (params_src(sig), ret_tuple_src(sig)), ns)
    f = ns["f"]
    for call in calls:
      line = out[pos] if pos < len(out) else "<missing>"
      pos += 1
      _, spec = decode_line(line, names, False)
      real = cpy_oracle("func", sig, call, False, run)
      bnd = bind_oracle(sig, call, f)
      n += 1
      if all_names(sig) and (call[0] or call[1]):
        nontrivial += 1
      if real[0] == "ok":
        okc += 1
      else:
        errc += 1
        kinds[real[1]] = kinds.get(real[1], 0) + 1
      bad = None
      if spec != real:
        bad = "spec!=call"
      elif bnd[0] != real[0] or (bnd[0] == "ok" and bnd[1] != real[1]):
        # CPython 3.12's inspect.Signature.bind wrongly rejects a keyword that names a positional-only
        # parameter although the signature has **kwargs (the real call accepts it and puts it into the
        # dict); the real call is the authority, the difference is only counted.
        if sig["kwargs"] and set(call[1]) & set(sig["posonly"]) and bnd[0] == "err" and real[0] == "ok":
          bind_quirk += 1
        else:
          bad = "bind!=call"
      if bad and len(dis) < 20:
        dis.append({"stage": "K1", "what": bad, "kind": "func", "sig": sig, "call": list(call),
                    "lean_spec": spec, "cpython_call": real, "inspect_bind": bnd,
                    "text": call_repr("func", sig, call)})
      elif bad:
        dis.append(None)
  return n, nontrivial, okc, errc, kinds, dis, bind_quirk


def k1(res, rng, tier, drv):
  sigs = list(enum_sigs())
  total_sigs = len(sigs)
  perms = tier == "thorough"
  star_names = tier == "thorough"
  rng.shuffle(sigs)
  if tier == "quick":
    sigs = sigs[:total_sigs // 4]   # seeded quarter of the signatures, all their calls
  chunks = [sigs[i::NPROC * 4] for i in range(NPROC * 4)]
  jobs = [(c, rng.randrange(1 << 30), perms, star_names, drv.path) for c in chunks if c]
  with multiprocessing.get_context("fork").Pool(NPROC) as pool:
    outs = pool.map(_k1_worker, jobs)
  n = sum(o[0] for o in outs)
  nontrivial = sum(o[1] for o in outs)
  kinds = {}
  for o in outs:
    for k, v in o[4].items():
      kinds[k] = kinds.get(k, 0) + v
  dis = [d for o in outs for d in o[5]]
  stats = {"signatures": len(sigs), "signatures_in_space": total_sigs, "calls": n,
           "inspect_bind_rejects_posonly_name_despite_kwargs (py3.12 quirk, real call accepts)": sum(o[6] for o in outs), "cpython_ok": sum(o[2] for o in outs),
           "cpython_typeerror": sum(o[3] for o in outs), "typeerror_kinds": kinds,
           "keyword_orders": "all permutations" if perms else "one seeded order per keyword set",
           "keyword_pool": "parameter names + zz" + (" + names of *args/**kwargs" if star_names else "")}
  return n, nontrivial, stats, [d for d in dis if d], len(dis)


# ----------------------------------------------------------------------------
# K2: Lean model vs real pytype
# ----------------------------------------------------------------------------
def gen_sig(rng, kind, big):
  mx = 6 if big else 3
  w = [3, 4, 3, 2] + ([1, 1, 1] if big else [])
  npo = rng.choices(range(mx + 1), w[:mx + 1])[0]
  npk = rng.choices(range(mx + 1), w[:mx + 1])[0]
  nko = rng.choices(range(mx + 1), w[:mx + 1])[0]
  po = ["x%d" % i for i in range(npo)]
  pk = ["a%d" % i for i in range(npk)]
  ko = ["k%d" % i for i in range(nko)]
  if kind in BOUND and rng.random() < 0.9:
    # the usual receiver parameter; otherwise the signature is taken as generated (its first
    # positional parameter receives the receiver; none at all = the known-finding region)
    first = "cls" if kind == "classmethod" else "self"
    if po or rng.random() < 0.15:
      po = [first] + po
    else:
      pk = [first] + pk
  pos = po + pk
  ndef = min(rng.choice([0, 0, 1, 2, len(pos)]), len(pos))
  if kind in BOUND and pos and pos[0] in ("self", "cls") and rng.random() < 0.95:
    ndef = min(ndef, len(pos) - 1)
  pdef = pos[len(pos) - ndef:] if ndef else []
  kdef = [k for k in ko if rng.random() < 0.4]
  va = "va" if rng.random() < 0.4 else None
  kw = "kws" if rng.random() < 0.45 else None
  return mk_sig(po, pk, va, ko, kw, pdef + kdef)


def gen_call(rng, kind, sig, big):
  pos = sig["posonly"] + sig["poskw"]
  user_pos = pos[1:] if (kind in BOUND and pos) else pos
  pool = pos + sig["kwonly"] + ["zz"] + [n for n in (sig["varargs"], sig["kwargs"]) if n]
  if kind not in BOUND:
    pool.append("self")
  ds = set(sig["defaults"])
  maxpos, maxkw = (8, 5) if big else (5, 3)
  if rng.random() < 0.55:
    # start from a call that binds, then perturb 0-2 times
    npos = rng.randrange(0, len(user_pos) + 1)
    if sig["varargs"] and rng.random() < 0.4:
      npos = len(user_pos) + rng.randrange(0, 3)
    kws = []
    for n in user_pos[npos:]:
      if n in sig["posonly"]:
        continue
      if n not in ds or rng.random() < 0.4:
        kws.append(n)
    for n in sig["kwonly"]:
      if n not in ds or rng.random() < 0.4:
        kws.append(n)
    if sig["kwargs"] and rng.random() < 0.4:
      kws.append(rng.choice(["zz"] + sig["posonly"][:2]))
    rng.shuffle(kws)
    for _ in range(rng.choice([0, 0, 1, 1, 2])):
      t = rng.random()
      if t < 0.3 and kws:
        kws.pop(rng.randrange(len(kws)))
      elif t < 0.6:
        k = rng.choice(pool)
        if k not in kws:
          kws.insert(rng.randrange(len(kws) + 1), k)
      elif t < 0.8:
        npos += 1
      elif npos:
        npos -= 1
  else:
    npos = rng.randrange(0, min(maxpos, len(user_pos) + 2) + 1)
    kws = rng.sample(pool, min(len(pool), rng.randrange(0, maxkw + 1)))
  npos = min(npos, maxpos)
  kws = list(dict.fromkeys(kws))[:max(maxkw, 3) + 3]
  return (npos, kws)


def gen_item(rng, big=False, kind=None):
  kind = kind or rng.choices(KINDS, [5, 4, 2, 2, 3])[0]
  sig = gen_sig(rng, kind, big)
  ncalls = rng.randrange(6, 11)
  calls, seen = [], set()
  for _ in range(ncalls * 3):
    c = gen_call(rng, kind, sig, big)
    key = (c[0], tuple(c[1]))
    if key not in seen:
      seen.add(key)
      calls.append(c)
    if len(calls) >= ncalls:
      break
  it = {"kind": kind, "sig": sig, "calls": calls}
  if kind == "init" and rng.random() < 0.4:
    it["with_new"] = True
  # spelling variants that do not change what CPython binds: some parameters read through a closure in the callee,
  # and calls written with literal * / ** unpacking
  if rng.random() < 0.4:
    names = [n for n in all_names(sig) if n not in ("self", "cls")]
    it["capture"] = sorted(rng.sample(names, rng.randrange(1, len(names) + 1))) if names else []
  it["styles"] = [rng.choice(CALL_STYLES) for _ in calls]
  return it


def module_source(items):
  """-> (source, [(item index, call index, call line, result constant name)])."""
  maxpos = max([c[0] for it in items for c in it["calls"]] + [0])
  kwn = sorted({k for it in items for c in it["calls"] for k in c[1]})
  dfn = sorted({d for it in items for d in it["sig"]["defaults"]})
  L = ["E_ = ()"]
  for i in range(maxpos):
    L.append("class P%d: pass" % i)
  for k in kwn:
    L.append("class K_%s: pass" % k)
  for d in dfn:
    L.append("class D_%s: pass" % d)
  for i in range(maxpos):
    L.append("p%d = P%d()" % (i, i))
  for k in kwn:
    L.append("k_%s = K_%s()" % (k, k))
  for d in dfn:
    L.append("d_%s = D_%s()" % (d, d))
  where = []
  for ii, it in enumerate(items):
    kind, sig = it["kind"], it["sig"]
    ps, rt = params_src(sig), ret_tuple_src(sig, capture=it.get("capture", ()))
    if kind == "func":
      L.append("def f%d(%s):" % (ii, ps))
      L.append("  return %s" % rt)
      target = "f%d" % ii
    else:
      L.append("class C%d:" % ii)
      if kind == "init":
        if it.get("with_new"):
          # a class that also overrides __new__ (accepting anything): binding errors still come from __init__ only
          L.append("  def __new__(cls, *a_, **k_):")
          L.append("    return super().__new__(cls)")
        L.append("  def __init__(%s):" % ps)
        L.append("    V%d.v = %s" % (ii, rt))
      else:
        if kind in ("classmethod", "staticmethod"):
          L.append("  @" + kind)
        L.append("  def m(%s):" % ps)
        L.append("    return %s" % rt)
      if kind != "init":
        L.append("o%d = C%d()" % (ii, ii))
    for ci, call in enumerate(it["calls"]):
      a = args_src(call, (it.get("styles") or ["plain"] * (ci + 1))[ci])
      rn = "r%d_%d" % (ii, ci)
      if kind == "func":
        L.append("%s = f%d(%s)" % (rn, ii, a))
      elif kind == "init":
        # the callee stores its frame in a fresh holder object, so that constructors whose first
        # parameter is not `self` can be observed too
        L.append("class H%d_%d: pass" % (ii, ci))
        L.append("V%d = H%d_%d()" % (ii, ii, ci))
        L.append("o%d_%d = C%d(%s)" % (ii, ci, ii, a))
        where.append((ii, ci, len(L), rn))
        L.append("%s = V%d.v" % (rn, ii))
        continue
      elif kind == "classmethod" and ci % 2 == 0:
        L.append("%s = C%d.m(%s)" % (rn, ii, a))
      elif kind == "staticmethod" and ci % 2 == 0:
        L.append("%s = C%d.m(%s)" % (rn, ii, a))
      else:
        L.append("%s = o%d.m(%s)" % (rn, ii, a))
      where.append((ii, ci, len(L), rn))
  return "\n".join(L) + "\n", where


def _ty_name(t):
  return getattr(t, "name", None)


def pytd_ref(t, pname, recv_cls, in_tuple=False):
  """pytd type of one element of the callee's returned frame -> ref string."""
  from pytype.pytd import pytd
  if isinstance(t, pytd.AnythingType):
    return "?"
  if isinstance(t, pytd.TupleType):
    return "T[" + ";".join(pytd_ref(p, None, recv_cls, True) for p in t.parameters) + "]"
  if isinstance(t, pytd.GenericType):
    base = _ty_name(t.base_type)
    if base == "builtins.type" and len(t.parameters) == 1 and _ty_name(t.parameters[0]) == recv_cls:
      return "R"
    if base == "builtins.dict" and len(t.parameters) == 2:
      kt, vt = t.parameters
      if isinstance(kt, pytd.NothingType) and isinstance(vt, pytd.NothingType):
        return "M[]"
      if _ty_name(kt) == "builtins.str":
        vs = vt.type_list if isinstance(vt, pytd.UnionType) else (vt,)
        ks = []
        for v in vs:
          nm = _ty_name(v) or "?"
          ks.append(nm[2:] if nm.startswith("K_") else "!" + nm)
        return "M[" + ";".join(sorted(ks)) + "]"
    return "!" + str(t)[:60]
  nm = _ty_name(t)
  if nm is None:
    return "!" + str(t)[:60]
  if nm == recv_cls:
    return "R"
  if re.fullmatch(r"P\d+", nm):
    return nm[1:] if in_tuple else nm
  if nm.startswith("K_"):
    return "K" + nm[2:]
  if nm.startswith("D_"):
    return "D" if nm[2:] == pname else "D!" + nm[2:]
  return "!" + nm


def run_pytype_module(items):
  """Real pytype on one generated module -> per call: ('ok', view) | ('err', model error kind)
  | ('anomaly', text); plus module-level anomalies."""
  from pytype import config, io
  from pytype.pytd import pytd
  src, where = module_source(items)
  try:
    ret, _ = io.generate_pyi(src, config.Options.create(python_version=(3, 12)))
  except Exception as e:  # a crash of the analyser is reported, not swallowed
    return None, ["pytype crashed: %r" % (e,)], src
  by_line = {}
  for e in ret.context.errorlog.unique_sorted_errors():
    by_line.setdefault(e.line, []).append(e.name)
  consts = {c.name: c.type for c in ret.ast.constants}
  call_lines = {}
  out = {}
  for ii, ci, line, rn in where:
    it = items[ii]
    sig = it["sig"]
    call_lines[line] = (ii, ci)
    errs = by_line.get(line, [])
    if errs:
      if len(errs) == 1 and errs[0] in PY_ERR:
        out[(ii, ci)] = ("err", PY_ERR[errs[0]])
      else:
        out[(ii, ci)] = ("anomaly", "errors on call line: " + ",".join(errs))
      continue
    t = consts.get(rn)
    names = all_names(sig)
    if not isinstance(t, pytd.TupleType) or len(t.parameters) != len(names):
      out[(ii, ci)] = ("anomaly", "no error, result type %s" % (str(t)[:80],))
      continue
    recv = ("C%d" % ii) if it["kind"] in BOUND else None
    out[(ii, ci)] = ("ok", " ".join(n + ":" + pytd_ref(p, n, recv) for n, p in zip(names, t.parameters)))
  anomalies = []
  for line, names_ in sorted(by_line.items()):
    if line in call_lines:
      continue
    # reading V.v after a failed constructor call is not an observation
    if (line - 1) in call_lines and items[call_lines[line - 1][0]]["kind"] == "init" and \
       out[call_lines[line - 1]][0] == "err":
      continue
    anomalies.append("unexpected error(s) %s at line %d: %s" % (",".join(names_), line,
                                                                src.split("\n")[line - 1][:80]))
  return out, anomalies, src


def _k2_init():
  common.load_pytype()


KW_TRACE = []


def install_kw_trace():
  """Records, in execution order, every KW_NAMES instruction and every entry of call_function_from_stack_311 (with the
  split it made) of the real VM — by wrapping the three methods in this process; /repo is not touched."""
  from pytype import vm as V  # pylint: disable=g-import-not-at-top
  cls = V.VirtualMachine
  if getattr(cls, "_verif_kw_traced", False):
    return
  o_kw, o_311, o_h = cls.byte_KW_NAMES, cls.call_function_from_stack_311, cls._call_function_from_stack_helper

  def kw(self, state, op):
    KW_TRACE.append(("k", tuple(op.argval)))
    return o_kw(self, state, op)

  def c311(self, state, num):
    self._verif_311 = True
    try:
      return o_311(self, state, num)
    finally:
      self._verif_311 = False

  def helper(self, state, funcv, posargs, namedargs, starargs, starstarargs):
    if getattr(self, "_verif_311", False):
      self._verif_311 = False
      KW_TRACE.append(("c", len(posargs), tuple(namedargs)))
    return o_h(self, state, funcv, posargs, namedargs, starargs, starstarargs)

  cls.byte_KW_NAMES, cls.call_function_from_stack_311, cls._call_function_from_stack_helper = kw, c311, helper
  cls._verif_kw_traced = True


def kw_trace_line(trace):
  return "kw " + " ".join("k:" + ",".join(e[1]) if e[0] == "k" else "c:%d" % (e[1] + len(e[2])) for e in trace)


def kw_trace_check(drv, traces, res):
  """the recorded traces against the Lean model of the pending-names register (Sem/KwReg.lean): every call must have
  split its operands as `run [] trace` says"""
  dis = []
  st = {"traces": len(traces), "events": 0, "kw_names": 0, "calls": 0, "keyword_calls": 0,
        "positional_calls_right_after_a_keyword_call": 0, "not_well_paired": 0}
  answers = drv.batch([kw_trace_line(t) for t in traces]) if traces else []
  for t, a in zip(traces, answers):
    st["events"] += len(t)
    calls = [e for e in t if e[0] == "c"]
    st["kw_names"] += len(t) - len(calls)
    st["calls"] += len(calls)
    st["keyword_calls"] += sum(1 for e in calls if e[2])
    st["positional_calls_right_after_a_keyword_call"] += sum(
        1 for a_, b_ in zip(t, t[1:]) if a_[0] == "c" and a_[2] and b_[0] == "c" and not b_[2])
    wp, _, body = a.partition(" ")
    if wp != "1":
      st["not_well_paired"] += 1
      continue
    model = [x.split(":") for x in body.split("|")] if body else []
    for i, (e, m) in enumerate(zip(calls, model)):
      real = [str(e[1]), ",".join(e[2])]
      if real != m:
        dis.append({"stage": "K3-kw-register", "what": "call %d of the trace split its operands as %r, the model of the "
                    "pending-names register says %r" % (i, real, m),
                    "trace_prefix": kw_trace_line(t[:t.index(e) + 1])[-600:]})
        break
  res.cov["kw_register"] = st
  return dis


def kw_extra_sources():
  """programs whose callees themselves make calls (positional and keyword) while a keyword call is in progress: the
  keyword-call and cooperative-__init__ families of C14 as whole modules, plus comprehension / lambda / decorator /
  recursion shapes"""
  from harness import c14  # pylint: disable=g-import-not-at-top
  out = []
  for pre, st in c14.sequence_family():
    if "kf(" in pre or "super().__init__" in pre:
      out.append(pre + "\n".join(st) + "\n")
  out.append(
      "def inner(a, b=0, *c, **d):\n  return str(a) + repr(b)\n"
      "def outer(x, y=1, **kw):\n  return inner(x, b=y) + inner(a=len(str(x)), **kw) + str(sorted([y], key=abs))\n"
      "def deco(f):\n  def w(*a, **k):\n    return f(*a, **k)\n  return w\n"
      "@deco\ndef dec(p, q=2):\n  return max(p, q, key=lambda v: abs(v))\n"
      "r1 = outer(1, y=2)\nr2 = outer(x=3, z=inner(4, b=5))\nr3 = [outer(i, y=i) for i in (1, 2)]\n"
      "r4 = dec(1, q=inner(2, b=3).count('2'))\nr5 = (lambda t, u=0: outer(t, y=u))(7, u=8)\n"
      "def rec(n, acc=()):\n  return acc if n <= 0 else rec(n - 1, acc=acc + (n,))\nr6 = rec(2, acc=())\n"
      "class C:\n  def __init__(self, v, w=None):\n    self.v = outer(v, y=len(str(w)))\n"
      "  def m(self, k, *, z=0):\n    return inner(k, b=z, extra=self.v)\n"
      "r7 = C(1, w='s').m(2, z=3)\nr8 = C(v=4).m(k=5)\n")
  return out


def _kw_src_worker(src):
  common.load_pytype()
  install_kw_trace()
  del KW_TRACE[:]
  from pytype import config, io  # pylint: disable=g-import-not-at-top
  try:
    io.generate_pyi(src, config.Options.create(python_version=(3, 12)))
  except Exception as e:  # pylint: disable=broad-except
    return [("x", repr(e)[:200])]
  return list(KW_TRACE)


def _k2_worker(items):
  common.load_pytype()
  install_kw_trace()
  del KW_TRACE[:]
  t = time.time()
  out, anomalies, src = run_pytype_module(items)
  return out, anomalies, time.time() - t, list(KW_TRACE)


def model_outputs(drv, items):
  """Lean model + spec for every call of every item (sorted ** contents)."""
  lines, meta = [], []
  for it in items:
    b = it["kind"] in BOUND
    ls, names = driver_lines(it["sig"], it["calls"], [b] * len(it["calls"]))
    lines += ls
    meta.append(names)
  out = drv.batch(lines)
  res, pos = [], 0
  for it, names in zip(items, meta):
    rr = []
    for _ in it["calls"]:
      rr.append(decode_line(out[pos], names, True))
      pos += 1
    res.append(rr)
  return res


def in_known_region(kind, sig):
  """the `_partial` guard's complement: a bound call of a function without positional parameter
  (known finding c13-receiver-dropped-no-positional)."""
  return kind in BOUND and not (sig["posonly"] or sig["poskw"])


def k2(res, rng, tier, drv, n_modules):
  modules = []
  for m in range(n_modules):
    big = (m % 5 == 4)
    items, ncalls = [], 0
    while ncalls < 50:
      it = gen_item(rng, big)
      items.append(it)
      ncalls += len(it["calls"])
    modules.append(items)
  flat = [it for items in modules for it in items]
  mo = model_outputs(drv, flat)
  with multiprocessing.get_context("fork").Pool(NPROC) as pool:
    outs = pool.map(_k2_worker, modules, chunksize=1)
  dis = []
  stats = {"modules": n_modules, "calls": 0, "by_kind": {}, "model_ok": 0, "model_err": {},
           "known_region_calls": 0, "with_varargs_tuple_nonempty": 0, "with_kwargs_dict_nonempty": 0,
           "kw_names_posonly_with_kwargs": 0, "big_signature_calls": 0,
           "pytype_s_per_module_max": round(max(o[2] for o in outs), 2),
           "pytype_s_total": round(sum(o[2] for o in outs), 1)}
  distinct = set()
  samples = []
  fi = 0
  with multiprocessing.get_context("fork").Pool(min(NPROC, 4)) as pool:
    extra = pool.map(_kw_src_worker, kw_extra_sources(), chunksize=1)
  for t in extra:
    if t and t[0][0] == "x":
      dis.append({"stage": "K3-kw-register", "what": "analysis of a keyword-call family module raised " + t[0][1]})
  dis += kw_trace_check(drv, [o[3] for o in outs] + [t for t in extra if not (t and t[0][0] == "x")], res)
  res.cov["kw_register"]["family_modules"] = len(extra)
  for mi, (items, (out, anomalies, _, _)) in enumerate(zip(modules, outs)):
    for a in anomalies:
      dis.append({"stage": "K2", "what": a, "module": mi, "items": items if len(dis) < 3 else None})
    for ii, it in enumerate(items):
      for ci, call in enumerate(it["calls"]):
        model, _spec = mo[fi][ci]
        real = out[(ii, ci)] if out else ("anomaly", "crash")
        stats["calls"] += 1
        stats["by_kind"][it["kind"]] = stats["by_kind"].get(it["kind"], 0) + 1
        if mi % 5 == 4:
          stats["big_signature_calls"] += 1
        if in_known_region(it["kind"], it["sig"]):
          stats["known_region_calls"] += 1
        if model[0] == "ok":
          stats["model_ok"] += 1
          if re.search(r":T\[[^\]]", model[1]):
            stats["with_varargs_tuple_nonempty"] += 1
          if re.search(r":M\[[^\]]", model[1]):
            stats["with_kwargs_dict_nonempty"] += 1
        else:
          stats["model_err"][model[1]] = stats["model_err"].get(model[1], 0) + 1
        if it["sig"]["kwargs"] and set(call[1]) & set(it["sig"]["posonly"]):
          stats["kw_names_posonly_with_kwargs"] += 1
        if all_names(it["sig"]) and (call[0] or call[1]):
          distinct.add((it["kind"], repr(it["sig"]), call[0], tuple(call[1])))
        if model != real:
          dis.append({"stage": "K2", "what": "model!=pytype", "kind": it["kind"], "sig": it["sig"],
                      "call": list(call), "lean_model": model, "real_pytype": real,
                      "style": (it.get("styles") or ["plain"] * (ci + 1))[ci],
                      "text": call_repr(it["kind"], it["sig"], call) + "   [spelled f(%s)]" % args_src(
                          call, (it.get("styles") or ["plain"] * (ci + 1))[ci])})
        elif len(samples) < 4 and (stats["calls"] % 97 == 1):
          samples.append({"case": call_repr(it["kind"], it["sig"], call), "model_and_pytype": model})
      fi += 1
  return stats, len(distinct), samples, dis


# ----------------------------------------------------------------------------
# K4: callees declared in a stub (PyTDSignature._map_args) vs the Lean model mapArgsPytd
# ----------------------------------------------------------------------------
def pytd_stub_and_module(items):
  """-> (lib.pyi text, module source, [(item, call, line)]).  Every declared parameter p is annotated with its own
  class A_p; the call passes, for each argument, an instance of the class of the parameter CPython binds it to (X for
  *args / **kwargs / nothing), so a call pytype binds differently shows as wrong-arg-types."""
  names = sorted({n for it in items for n in all_names(it["sig"])})
  P = ["class X: ...", "x: X"] + ["class A_%s: ..." % n for n in names] + ["v_%s: A_%s" % (n, n) for n in names]
  for ii, it in enumerate(items):
    sig = it["sig"]
    ds = set(sig["defaults"])

    def par(n):
      return "%s: A_%s%s" % (n, n, " = ..." if n in ds else "")
    ps = [par(n) for n in sig["posonly"]]
    if sig["posonly"]:
      ps.append("/")
    ps += [par(n) for n in sig["poskw"]]
    if sig["varargs"]:
      ps.append("*%s: object" % sig["varargs"])
    elif sig["kwonly"]:
      ps.append("*")
    ps += [par(n) for n in sig["kwonly"]]
    if sig["kwargs"]:
      ps.append("**%s: object" % sig["kwargs"])
    P.append("def f%d(%s) -> None: ..." % (ii, ", ".join(ps)))
  L, where = ["import lib"], []
  for ii, it in enumerate(items):
    sig = it["sig"]
    pos = sig["posonly"] + sig["poskw"]
    bindable = set(sig["poskw"] + sig["kwonly"])
    for ci, (npos, kws) in enumerate(it["calls"]):
      a = ["lib.v_%s" % pos[i] if i < len(pos) else "lib.x" for i in range(npos)]
      a += ["%s=%s" % (k, "lib.v_%s" % k if k in bindable else "lib.x") for k in kws]
      L.append("lib.f%d(%s)" % (ii, ", ".join(a)))
      where.append((ii, ci, len(L)))
  return "\n".join(P) + "\n", "\n".join(L) + "\n", where


def _k4_worker(items):
  import shutil
  import tempfile
  common.load_pytype()
  from pytype import config, io
  stub, src, where = pytd_stub_and_module(items)
  d = tempfile.mkdtemp(prefix="c13k4_", dir=os.path.join(common.VERIF, "build"))
  try:
    open(os.path.join(d, "lib.pyi"), "w").write(stub)
    try:
      ret, _ = io.generate_pyi(src, config.Options.create(python_version=(3, 12), pythonpath=d))
    except Exception as e:  # pylint: disable=broad-except
      return {"crash": repr(e)[:300], "stub": stub, "src": src}
    by_line = {}
    for e in ret.context.errorlog.unique_sorted_errors():
      by_line.setdefault(e.line, []).append(e.name)
    out = {}
    for ii, ci, line in where:
      errs = by_line.pop(line, [])
      if not errs:
        out["%d,%d" % (ii, ci)] = ("ok", "")
      elif len(errs) == 1 and errs[0] in PY_ERR:
        out["%d,%d" % (ii, ci)] = ("err", PY_ERR[errs[0]])
      else:
        out["%d,%d" % (ii, ci)] = ("other", ",".join(errs))
    return {"out": out, "stray": sorted(by_line.items())[:5], "stub": stub, "src": src}
  finally:
    shutil.rmtree(d, ignore_errors=True)


def k4_pytd(res, rng, tier, drv):
  """functions declared in a stub: real PyTDSignature binding vs Lean mapArgsPytd (error kind per call line; for the
  calls the model binds, no error at all — the arguments are typed after the parameters CPython binds them to), and
  Lean model vs Lean spec cpyBind on the accept/reject decision (proved: pytd_bind_ok_iff; recomputed here)"""
  n_mod = 24 if tier == "quick" else 160
  mods = []
  for m in range(n_mod):
    items = []
    for _ in range(6):
      it = gen_item(rng, big=(m % 5 == 4), kind="func")
      items.append({"kind": "func", "sig": it["sig"], "calls": it["calls"]})
    mods.append(items)
  with multiprocessing.get_context("fork").Pool(min(NPROC, 12)) as pool:
    outs = pool.map(_k4_worker, mods, chunksize=1)
  dis = []
  st = {"modules": n_mod, "calls": 0, "model_ok": 0, "model_err": {}, "accept_reject_differs_from_spec": 0,
        "error_class_differs_from_cpython": 0}
  distinct = set()
  for items, o in zip(mods, outs):
    if "crash" in o:
      dis.append({"stage": "K4-pytd", "what": "pytype crashed on a module calling stub functions: " + o["crash"],
                  "program": o["src"], "stub": o["stub"]})
      continue
    if o["stray"]:
      dis.append({"stage": "K4-pytd", "what": "unexpected errors %s" % (o["stray"],), "program": o["src"], "stub": o["stub"]})
    for ii, it in enumerate(items):
      lines, names = driver_lines(it["sig"], it["calls"], [False] * len(it["calls"]))
      lines = [lines[0]] + ["p" + l[1:] for l in lines[1:]]
      ans = drv.batch(lines)
      for ci, (call, line) in enumerate(zip(it["calls"], ans)):
        model, spec = decode_line(line, names, True)
        real = tuple(o["out"]["%d,%d" % (ii, ci)])
        st["calls"] += 1
        distinct.add((repr(it["sig"]), call[0], tuple(call[1])))
        if model[0] == "ok":
          st["model_ok"] += 1
        else:
          st["model_err"][model[1]] = st["model_err"].get(model[1], 0) + 1
        if (model[0] == "ok") != (spec[0] == "ok"):
          st["accept_reject_differs_from_spec"] += 1
          dis.append({"stage": "K4-pytd", "what": "Lean mapArgsPytd and Lean cpyBind disagree on accept/reject (contradicts "
                      "pytd_bind_ok_iff)", "sig": it["sig"], "call": list(call)})
        elif model[0] == "err" and M_CLASS.get(model[1]) != C_CLASS.get(spec[1]):
          st["error_class_differs_from_cpython"] += 1      # allowed: pytd_error_class_differs
        want = ("ok", "") if model[0] == "ok" else ("err", model[1])
        if real != want:
          dis.append({"stage": "K4-pytd", "what": "model!=pytype (stub callee)", "kind": "pytd", "sig": it["sig"],
                      "call": list(call), "lean_model": list(want), "real_pytype": list(real),
                      "text": "stub: def f(%s); lib.f(%s)" % (params_src(it["sig"], lambda n: "..."), args_src(call))})
  res.cov["pytd_callees"] = st
  return dis, st["calls"], len(distinct)


def correspond(res, rng, tier):
  common.load_pytype()
  drv = common.ensure_driver("drv_c13")
  t0 = time.time()
  n1, nt1, st1, dis1, ndis1 = k1(res, random.Random(rng.randrange(1 << 30)), tier, drv)
  t1 = time.time()
  n_modules = 100 if tier == "quick" else 900
  st2, nt2, samples, dis2 = k2(res, random.Random(rng.randrange(1 << 30)), tier, drv, n_modules)
  t2 = time.time()
  dis4, n4, nt4 = k4_pytd(res, random.Random(rng.randrange(1 << 30)), tier, drv)
  dis2 = dis2 + dis4
  res.cov["evaluations"] = n1 + st2["calls"] + n4
  res.cov["distinct_nontrivial"] = nt1 + nt2 + nt4
  res.cov["exhaustive"] = False
  res.cov["rule"] = (
      "K1: %d of the %d signatures with <=3 positional-only, <=3 positional-or-keyword, <=3 keyword-only parameters, "
      "defaults on every suffix of the positional parameters and every subset of the keyword-only ones, with/without "
      "*args and **kwargs (quick: a seeded quarter, thorough: all) x every call with <=5 positionals and every keyword set of <=3 names from "
      "the parameter names + one foreign name (%s; %s): Lean spec cpyBind vs really calling the function in CPython "
      "(outcome, TypeError kind by message, value of every parameter incl. *args tuple and ordered **kwargs dict) and "
      "vs inspect.signature(f).bind; enumeration is duplicate-free, non-trivial = signature has a name and the call an "
      "argument.  K2: seeded sample of generated modules (~50 calls each; 1 in 5 with signatures up to 6 parameters "
      "per kind, 8 positionals, 5+ keywords) through the real pytype VM vs Lean model mapArgs/mapArgsBound: error "
      "class per call line, and for calls without error the argument received by every parameter (callee returns "
      "its frame; one class per argument identifies the flow); non-trivial as above, distinct = distinct "
      "(kind, signature, call)" % (st1["signatures"], st1["signatures_in_space"], st1["keyword_orders"],
                                  st1["keyword_pool"]))
  res.cov["distribution"] = {"K1": st1, "K2": st2, "K1_wall_s": round(t1 - t0, 1), "K2_wall_s": round(t2 - t1, 1),
                             "K1_nontrivial": nt1, "K2_distinct_nontrivial": nt2}
  res.add_samples(samples)
  res.add_samples([{"K1_case": "def f(x0, /, a0, a1=d, *, k0, **kws); f(p0, p1, k0=…, zz=…)",
                    "lean_spec_and_cpython": "ok x0:P0 a0:P1 a1:D k0:Kk0 kws:M[zz]"}])
  return dis1 + dis2


# ----------------------------------------------------------------------------
# the property's own oracle on the real code: CPython vs pytype
# ----------------------------------------------------------------------------
def oracle_check(cases, styles=None):
  """cases: list of (kind, sig, call).  Runs real pytype (one module) and CPython (really calling).
  styles: how each call is spelled in the analysed module (CPython binds every spelling alike).
  -> list of (case, cpython, pytype) that violate the property."""
  common.load_pytype()
  styles = styles or ["plain"] * len(cases)
  items = [{"kind": k, "sig": s, "calls": [tuple(c)], "styles": [st]} for (k, s, c), st in zip(cases, styles)]
  out, anomalies, _ = run_pytype_module(items)
  bad = []
  for ii, (k, s, c) in enumerate(cases):
    cp = cpy_oracle(k, s, tuple(c), True)
    real = out[(ii, 0)] if out else ("anomaly", "; ".join(anomalies))
    if cp[0] == "ok":
      fails = real != cp
    else:
      fails = real[0] != "err"
    if fails:
      bad.append(((k, s, c), cp, real))
  return bad


def shrink_case(kind, sig, call, budget_s=40.0, style="plain"):
  """greedy: drop parameters / defaults / arguments while CPython and pytype still disagree."""
  t0 = time.time()

  def fails(k, s, c):
    try:
      return bool(oracle_check([(k, s, c)], [style]))
    except Exception:
      return False
  cur = (kind, sig, (call[0], list(call[1])))
  progress = True
  while progress and time.time() - t0 < budget_s:
    progress = False
    k, s, c = cur
    cands = []
    for fld in ("posonly", "poskw", "kwonly"):
      for i in range(len(s[fld])):
        n = s[fld][i]
        s2 = dict(s)
        s2[fld] = s[fld][:i] + s[fld][i + 1:]
        s2["defaults"] = [d for d in s["defaults"] if d != n]
        cands.append((k, s2, c))
    for fld in ("varargs", "kwargs"):
      if s[fld]:
        s2 = dict(s)
        s2[fld] = None
        cands.append((k, s2, c))
    pos = s["posonly"] + s["poskw"]
    pd = [d for d in pos if d in s["defaults"]]
    if pd:  # remove the first positional default (keeps the suffix rule)
      s2 = dict(s)
      s2["defaults"] = [d for d in s["defaults"] if d != pd[0]]
      cands.append((k, s2, c))
    for d in s["kwonly"]:
      if d in s["defaults"]:
        s2 = dict(s)
        s2["defaults"] = [x for x in s["defaults"] if x != d]
        cands.append((k, s2, c))
    if c[0]:
      cands.append((k, s, (c[0] - 1, c[1])))
    for i in range(len(c[1])):
      cands.append((k, s, (c[0], c[1][:i] + c[1][i + 1:])))
    if k != "func":
      cands.append(("func", s, c))
    for cand in cands:
      if time.time() - t0 > budget_s:
        break
      if in_known_region(cand[0], cand[1]):
        continue
      if fails(*cand):
        cur = cand
        progress = True
        break
  return cur


def search(res, rng, disagreements, pfail):
  """S: CPython (really calling) vs the real pytype, around the disagreeing inputs."""
  t0 = time.time()
  cases, styles = [], []
  for d in disagreements:
    if d.get("sig") is not None and d.get("call") is not None:
      cases.append((d.get("kind", "func"), d["sig"], (d["call"][0], list(d["call"][1]))))
      styles.append(d.get("style", "plain"))     # the spelling the disagreement was seen with
  seeds = list(zip(cases[:40], styles[:40]))
  # neighbourhood: same signatures with other calls (same spelling), then fresh samples in every spelling
  for (k, s, _), st in seeds[:15]:
    for _ in range(6):
      cases.append((k, s, gen_call(rng, k, s, False)))
      styles.append(st)
  for _ in range(40):
    it = gen_item(rng, False)
    cases += [(it["kind"], it["sig"], c) for c in it["calls"]]
    styles += list(it["styles"])
  # the region of the known finding is represented by its listed witnesses (W), not searched
  keep = [i for i, c in enumerate(cases) if not in_known_region(c[0], c[1])]
  cases, styles = [cases[i] for i in keep], [styles[i] for i in keep]
  found = []
  if any(d.get("stage") == "K3-kw-register" for d in disagreements):
    # the keyword-call family modules run under CPython without a TypeError; a binding error reported by pytype on
    # one of them is a call that was not bound as CPython binds it
    from pytype import config, io  # pylint: disable=g-import-not-at-top
    for src in kw_extra_sources():
      try:
        exec(compile(src, "<kw-family>", "exec"), {})  # pylint: disable=exec-used
        cp = "runs"
      except TypeError as e:
        cp = "TypeError: %s" % e
      except Exception:  # pylint: disable=broad-except
        cp = "runs"    # AttributeError etc. of the C14 statements: not about binding
      try:
        ret, _ = io.generate_pyi(src, config.Options.create(python_version=(3, 12)))
        errs = [(e.name, e.line, str(e.message)[:160]) for e in ret.context.errorlog if e.name in PY_ERR]
      except Exception as e:  # pylint: disable=broad-except
        errs = [("exception", 0, repr(e)[:200])]
      if errs and cp == "runs":
        found.append({"program": src, "cpython": cp, "pytype": errs[:4],
                      "text": "keyword-call family module: pytype reports a binding error CPython does not raise"})
        break
  for i in range(0, len(cases), 50):
    if time.time() - t0 > 120 or found:
      break
    try:
      bad = oracle_check(cases[i:i + 50], styles[i:i + 50])
    except Exception as e:
      found.append({"exception": repr(e), "cases": [call_repr(*c) for c in cases[i:i + 50]][:5]})
      break
    st_of = {repr(c): st for c, st in zip(cases[i:i + 50], styles[i:i + 50])}
    for (k, s, c), cp, real in bad[:2]:
      st = st_of.get(repr((k, s, c)), "plain")
      k2_, s2, c2 = shrink_case(k, s, c, style=st)
      bad2 = oracle_check([(k2_, s2, c2)], [st])
      cp2, real2 = (bad2[0][1], bad2[0][2]) if bad2 else (cp, real)
      found.append({"kind": k2_, "sig": s2, "call": [c2[0], list(c2[1])], "style": st,
                    "program": module_source([{"kind": k2_, "sig": s2, "calls": [tuple(c2)], "styles": [st]}])[0],
                    "cpython": cp2, "pytype": real2,
                    "text": call_repr(k2_, s2, c2) + "   [spelled f(%s)]" % args_src(c2, st),
                    "unshrunk": call_repr(k, s, c)})
  return found


# ----------------------------------------------------------------------------
# W: witnesses
# ----------------------------------------------------------------------------
def parse_witness(w):
  """{"kind"?, "sig": "<parameter list>", "calls": ["f(<args>)", …]} -> (kind, sig, [call])"""
  fn = ast.parse("def f(%s): pass" % w["sig"]).body[0]
  a = fn.args
  pos = [x.arg for x in a.posonlyargs] + [x.arg for x in a.args]
  defaults = pos[len(pos) - len(a.defaults):] if a.defaults else []
  defaults += [x.arg for x, d in zip(a.kwonlyargs, a.kw_defaults) if d is not None]
  sig = mk_sig([x.arg for x in a.posonlyargs], [x.arg for x in a.args], a.vararg.arg if a.vararg else None,
               [x.arg for x in a.kwonlyargs], a.kwarg.arg if a.kwarg else None, defaults)
  calls = []
  for c in w["calls"]:
    e = ast.parse(c, mode="eval").body
    calls.append((len(e.args), [k.arg for k in e.keywords]))
  return w.get("kind", "func"), sig, calls


def witnesses(res):
  known, fixed = common.known_findings("C13")
  replayed = []
  for entry in fixed:
    kind, sig, calls = parse_witness(entry["witness"])
    bad = oracle_check([(kind, sig, c) for c in calls])
    replayed.append({"id": entry["id"], "status": "fails again" if bad else "passes"})
    if bad:
      (k, s, c), cp, real = bad[0]
      res.violation("fixed-" + entry["id"], {
          "property": "C13", "kind": "fixed-witness-fails-again", "id": entry["id"],
          "input": {"kind": k, "sig": s, "call": [c[0], list(c[1])], "text": call_repr(k, s, c),
                    "program": module_source([{"kind": k, "sig": s, "calls": [tuple(c)]}])[0]},
          "cpython": cp, "pytype": real})
  for entry in known:
    ws = entry["witness"] if isinstance(entry["witness"], list) else [entry["witness"]]
    still = []
    for w in ws:
      kind, sig, calls = parse_witness(w)
      bad = oracle_check([(kind, sig, c) for c in calls])
      for (k, s, c), cp, real in bad:
        still.append("%s -> CPython %s, pytype %s" % (call_repr(k, s, c), cp, real))
    replayed.append({"id": entry["id"], "status": "still fails" if still else "no longer fails"})
    if still:
      res.known_lines.append("%s [%s]" % (entry["what"], "; ".join(still)))
  res.cov["witnesses_replayed"] = replayed


def replay(path):
  """./check C13 --replay FILE: re-evaluates the recorded input with the property's oracle."""
  import json
  d = json.load(open(path))
  inp = d.get("input") or {}
  if not inp.get("sig"):
    print("replay file has no concrete input (kind=%s)" % d.get("kind"))
    return 2
  case = (inp.get("kind", "func"), inp["sig"], (inp["call"][0], list(inp["call"][1])))
  bad = oracle_check([case], [inp.get("style", "plain")])
  print("replay %s [f(%s)]: %s" % (call_repr(*case), args_src(case[2], inp.get("style", "plain")), "CPython %s, pytype %s -> VIOLATES" % (bad[0][1], bad[0][2])
                            if bad else "CPython and pytype agree"))
  return 1 if bad else 0


def main():
  if os.environ.get("VERIF_REPLAY"):
    return replay(os.environ["VERIF_REPLAY"])
  return common.run_check(
      "C13", REQUIRED, correspond, witnesses, search,
      trusted=["hand-written model of SignedFunction._map_args and of BoundFunction.call's receiver rule; tied to "
               "the real pytype VM by K2 (sampling)",
               "hand-written Lean specification cpyBind of CPython's initialize_locals; tied to the running CPython "
               "3.12 (real calls and inspect.Signature.bind) by K1 over the property's whole bounded space",
               "observation of the flow by one fresh class per argument and the inferred type of the callee's "
               "returned frame (a **kwargs dict is observed as the set of its value types, i.e. unordered)"],
      assumptions=["calls with */** arguments at the call site are outside the property's quantifier (not modelled)",
                   "parameter names are distinct and keywords are not repeated (enforced by the Python compiler)",
                   "only InterpreterFunction callees (def in the analysed module); PyTD functions use a different "
                   "binder (_pytd_function.py) that is not modelled"])


if __name__ == "__main__":
  sys.exit(main())
