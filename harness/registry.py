"""Registry of claimed checks: one JSON file per property under harness/registry/ with keys
text, note, technique (optional: engine, design_ref).  MANIFEST.json is generated from it by
harness/gen_manifest.py.  A property without a registry file is listed under not_applicable
(with the reason in harness/registry/not_applicable.json if present, else 'pending')."""
import json
import os

_D = os.path.join(os.path.dirname(os.path.abspath(__file__)), "registry")

NOTES = ("Every check runs: P (lake build of Props.Cxx + per-theorem axiom audit) -> K (correspondence of the Lean "
         "model's compiled driver with the real pytype code) -> W (replay of known/fixed witnesses) -> S (failing-input "
         "search on the real code, only when P or K broke). See DESIGN.md.")

# Only properties listed in registry/READY (one id per line) are claimed in MANIFEST.json: a builder's registry
# file may exist before its check has been verified by the coordinator.
try:
  _READY = {l.strip() for l in open(os.path.join(_D, "READY")) if l.strip() and not l.startswith("#")}
except OSError:
  _READY = set()
CHECKS = {}
for f in sorted(os.listdir(_D)):
  if f.startswith("C") and f.endswith(".json") and f[:-5] in _READY:
    CHECKS[f[:-5]] = json.load(open(os.path.join(_D, f)))

_PENDING = "check not built yet (planned, DESIGN.md section 8); not a claim that the technique is inapplicable"
try:
  _NA = json.load(open(os.path.join(_D, "not_applicable.json")))
except OSError:
  _NA = {}
NOT_APPLICABLE = {("C%02d" % i): _NA.get("C%02d" % i, _PENDING) for i in range(1, 21) if ("C%02d" % i) not in CHECKS}
