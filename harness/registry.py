"""Registry of claimed checks; MANIFEST.json is generated from this (harness/gen_manifest.py)."""

NOTES = ("Every check runs: P (lake build of Props.Cxx + per-theorem axiom audit) -> K (correspondence of the Lean "
         "model's compiled driver with the real pytype code) -> W (replay of known/fixed witnesses) -> S (failing-input "
         "search on the real code, only when P or K broke). See DESIGN.md.")

CHECKS = {
    "C09": {
        "text": "Lean 4 theorem reach_correct: after any history of NewCFGNode/ConnectTo (any node count, self/duplicate edges, any order) is_reachable a b <-> ReflTransGen of the inserted edges, incl. refinement of the in-place C++ loop to the simultaneous closure update; model tied to reachable.cc/typegraph.cc by op-by-op differential runs against the real extension built from /repo.",
        "note": "Trusted: Lean kernel + propext/Classical.choice/Quot.sound; hand-written model of reachable.cc and ConnectTo/NewCFGNode/is_reachable; correspondence is sampling (exhaustive small histories + random up to 300 nodes).",
        "technique": "Lean 4 invariant proof over operation histories + model/implementation correspondence",
    },
}

_PENDING = "check not built yet in this round (planned, see DESIGN.md section 8); not a claim of inapplicability of the technique"
NOT_APPLICABLE = {("C%02d" % i): _PENDING for i in range(1, 21) if ("C%02d" % i) not in CHECKS}
