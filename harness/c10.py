"""C10 — class linearisation agrees with CPython's MRO (DESIGN.md §5 C10).

K1: real mro.MROMerge (incl. Dedup and the SINGLETON escape) vs the Lean model, exhaustive small
    sequence families + random.
K2: the Lean *specification* (pmerge / mro_implementation) vs the running interpreter: type(name, bases, {}).
    K2b: the specification of attribute lookup / super() lookup vs getattr / super() of the interpreter.
K3: real pytype (io.generate_pyi) on programs generated from hierarchies vs the Lean model of
    compute_mro + the mro walk of attribute lookup (plain reads and reads through super());
    stub classes through mro.GetBasesInMRO.
W : the known finding `class C(A, A)` (accepted by pytype, refused by CPython).
S : CPython itself as oracle for pytype's [mro-error] lines and the type of C.attr.
"""
import collections
import itertools
import multiprocessing
import os
import re
import sys
import time

from harness import common

REQUIRED = ["merge_eq_pmerge", "mromerge_eq_pmerge", "merge_fuel_sufficient", "mro_eq_partial", "mro_eq",
            "mro_error_iff", "lookup_eq", "super_lookup_eq", "walk_is_first_definer", "mro_dup_witness", "mro_dup_not_full",
            "mro_shape", "stub_mro_eq", "stub_bases_eq_cpython"]

# literal written in class i's body, pytype's name for its type in the emitted stub, CPython's type name
LITS = [("1", "int", "int"), ("''", "str", "str"), ("1.0", "float", "float"), ("b''", "bytes", "bytes"),
        ("1j", "complex", "complex"), ("True", "bool", "bool"), ("None", "None", "NoneType"),
        ("[1]", "list[int]", "list"), ("(1,)", "tuple[int]", "tuple"), ("{1}", "set[int]", "set"),
        ("{1: ''}", "dict[int, str]", "dict"), ("frozenset([1])", "frozenset[int]", "frozenset")]
PYI2LIT = {t[1]: i for i, t in enumerate(LITS)}
CPY2LIT = {t[2]: i for i, t in enumerate(LITS)}
MAX_CLASSES = len(LITS)  # classes 1..MAX_CLASSES of one hierarchy get distinct literal types


# ----------------------------------------------------------------------------
# encoding for the driver
# ----------------------------------------------------------------------------
def enc_list(l):
  return ",".join(str(x) for x in l) if l else "-"


def enc_lists(ls):
  return ";".join(enc_list(l) for l in ls) if ls else "."


# ----------------------------------------------------------------------------
# K1: mro.MROMerge
# ----------------------------------------------------------------------------
class _Sym:
  SINGLETON = False
  __slots__ = ("i",)

  def __init__(self, i):
    self.i = i


class _SSym(_Sym):
  SINGLETON = True
  __slots__ = ()


def real_merge(mro, sing, seqs):
  nsym = 1 + max([x for s in seqs for x in s] + [0])
  syms = [(_SSym if i in sing else _Sym)(i) for i in range(nsym)]
  try:
    r = mro.MROMerge([[syms[x] for x in s] for s in seqs])
    return "ok " + enc_list([y.i for y in r])
  except mro.MROError:
    return "err inconsistent"
  except Exception as e:  # pylint: disable=broad-except
    return "exc " + type(e).__name__


def families(nseq, nsym, maxlen, dups):
  """All families of exactly nseq sequences, symbols first appearing in increasing order."""
  def rec(fam, cur, used):
    if len(fam) == nseq:
      yield fam
      return
    yield from rec(fam + [cur], [], used)
    if len(cur) < maxlen:
      for x in range(min(used + 1, nsym)):
        if not dups and x in cur:
          continue
        yield from rec(fam, cur + [x], max(used, x + 1))
  return rec([], [], 0)


def random_family(rng):
  nseq = rng.choice([1, 2, 3, 3, 4, 4, 4, 5, 6])
  nsym = rng.choice([2, 3, 4, 5, 5, 5, 8])
  dup = rng.random() < 0.3
  seqs = []
  # half of the time derive the sequences from one hidden total order (consistent input), else free
  consistent = rng.random() < 0.5
  order = list(range(nsym))
  rng.shuffle(order)
  for _ in range(nseq):
    ln = rng.randrange(0, 6)
    if consistent:
      s = sorted(rng.sample(range(nsym), min(ln, nsym)), key=order.index)
      if dup and s and rng.random() < 0.5:
        s.insert(rng.randrange(len(s) + 1), rng.choice(s))
    elif dup:
      s = [rng.randrange(nsym) for _ in range(ln)]
    else:
      s = rng.sample(range(nsym), min(ln, nsym))
    seqs.append(s)
  sing = [x for x in range(nsym) if rng.random() < 0.15] if rng.random() < 0.4 else []
  return sing, seqs


def k1_cases(rng, tier):
  cases = []
  if tier == "thorough":
    plan = [(1, 5, 5, False), (2, 5, 4, False), (3, 5, 3, False), (4, 5, 3, False),
            (1, 3, 5, True), (2, 3, 4, True), (3, 3, 3, True), (4, 2, 3, True)]
    sing_plan = [(1, 3, 3), (2, 3, 3), (3, 3, 3), (2, 4, 3)]
    nrand = 120000
  else:
    plan = [(1, 5, 5, False), (2, 5, 3, False), (3, 4, 3, False), (4, 3, 3, False), (4, 5, 2, False),
            (1, 3, 4, True), (2, 3, 4, True), (3, 3, 3, True)]
    sing_plan = [(1, 3, 3), (2, 3, 3), (3, 3, 3)]
    nrand = 15000
  for nseq, nsym, maxlen, dups in plan:
    for fam in families(nseq, nsym, maxlen, dups):
      cases.append(((), fam))
  for nseq, nsym, maxlen in sing_plan:
    for fam in families(nseq, nsym, maxlen, False):
      used = 1 + max([x for s in fam for x in s] + [-1])
      for mask in range(1, 1 << used):
        cases.append((tuple(i for i in range(used) if mask >> i & 1), fam))
  n_ex = len(cases)
  for _ in range(nrand):
    sing, seqs = random_family(rng)
    cases.append((tuple(sing), seqs))
  return cases, n_ex


def k1(res, rng, tier, drv, dist):
  from pytype.pytd import mro
  cases, n_ex = k1_cases(rng, tier)
  out = drv.batch(["merge %s %s" % (enc_list(sg), enc_lists(ss)) for sg, ss in cases])
  dis = []
  nontriv = set()
  kinds = {"ok": 0, "err": 0, "exc": 0}
  for (sg, ss), m in zip(cases, out):
    r = real_merge(mro, sg, ss)
    kinds[r.split(" ")[0]] = kinds.get(r.split(" ")[0], 0) + 1
    ne = [s for s in ss if s]
    if len(ne) >= 2 and any(set(a) & set(b) for a, b in itertools.combinations(ne, 2)):
      nontriv.add((sg, tuple(map(tuple, ss))))
    if r != m:
      dis.append({"part": "K1 mro.MROMerge", "singletons": list(sg), "seqs": [list(s) for s in ss],
                  "real": r, "model": m})
  dist["k1_exhaustive"] = n_ex
  dist["k1_random"] = len(cases) - n_ex
  dist["k1_results_real"] = kinds
  dist["k1_with_singletons"] = sum(1 for sg, _ in cases if sg)
  res.add_samples([{"K1": "merge %s %s" % (enc_list(cases[n_ex // 3][0]), enc_lists(cases[n_ex // 3][1])),
                    "real=model": out[n_ex // 3]}])
  return dis, len(cases), len(nontriv)


# ----------------------------------------------------------------------------
# CPython as specification oracle (type())
# ----------------------------------------------------------------------------
def cpy_type(name, bases):
  try:
    return type(name, bases, {}), None
  except TypeError as e:
    msg = str(e)
    if "duplicate base class" in msg:
      return None, "duplicate"
    if "consistent method resolution" in msg:
      return None, "inconsistent"
    return None, "other(%s)" % msg[:60]


class Live:
  """A hierarchy being built with real CPython classes: bases[i], types[i] (None = creation failed)."""

  def __init__(self):
    self.bases = [[]]
    self.types = [object]
    self.errs = [None]

  def add(self, bs):
    t, err = cpy_type("K%d" % len(self.bases), tuple(self.types[b] for b in bs))
    self.bases.append(list(bs))
    self.types.append(t)
    self.errs.append(err)
    return t is not None

  def pop(self):
    self.bases.pop()
    self.types.pop()
    self.errs.pop()

  def alive(self):
    return [i for i, t in enumerate(self.types) if t is not None]

  def results(self):
    idx = {t: i for i, t in enumerate(self.types) if t is not None}
    out = []
    for t, e in zip(self.types, self.errs):
      out.append("ok:" + enc_list([idx[c] for c in t.__mro__]) if t is not None else "err:" + e)
    return "|".join(out)


def enum_hiers(nclasses, maxbases, with_dups=True):
  """DFS over all hierarchies of `nclasses` classes after object; bases = sequences (with repetition if
  with_dups) of 1..maxbases classes CPython created successfully.  Yields (bases, cpython results)."""
  live = Live()

  def rec():
    if len(live.bases) == nclasses + 1:
      yield [list(b) for b in live.bases], live.results()
      return
    al = live.alive()
    for k in range(1, maxbases + 1):
      it = itertools.product(al, repeat=k) if with_dups else itertools.permutations(al, k)
      for bs in it:
        live.add(bs)
        yield from rec()
        live.pop()
  return rec()


def random_hier(rng, nclasses=None, pdup=0.06):
  """Random hierarchy guided by CPython: later classes only name classes that were created."""
  n = nclasses or rng.choice([2, 3, 4, 5, 6, 6, 7, 7, 8, 8])
  mode = rng.choice(["recent", "uniform", "diamond", "mixins"])
  live = Live()
  for i in range(1, n + 1):
    al = live.alive()
    user = [a for a in al if a != 0]
    k = rng.choices([1, 2, 3], weights=[30, 45, 25])[0]
    pool = user if user and rng.random() < 0.93 else al
    if mode == "recent" and len(pool) > 3 and rng.random() < 0.7:
      pool = pool[-3:]
    if mode == "mixins" and len(pool) > 2 and rng.random() < 0.5:
      pool = pool[:2] + pool[-2:]
    k = min(k, len(pool)) or 1
    bs = rng.sample(pool, k) if len(pool) >= k else [rng.choice(al)]
    if mode == "diamond" and rng.random() < 0.5:
      bs.sort(reverse=rng.random() < 0.8)  # children before parents more often than not
    if 0 in al and rng.random() < 0.07:
      bs.insert(rng.randrange(len(bs) + 1), 0)  # explicit object, any position
    if rng.random() < pdup and len(bs) < 3:
      bs.insert(rng.randrange(len(bs) + 1), rng.choice(bs))
    # dedupe is NOT applied: duplicates are part of the input space
    live.add(bs)
  return [list(b) for b in live.bases], live.results()


def k2(res, rng, tier, drv, dist):
  cases = []
  if tier == "thorough":
    plans = [(5, 3), (6, 2)]
    nrand = 60000
  else:
    plans = [(4, 3), (5, 2)]
    nrand = 6000
  for n, mb in plans:
    cases += list(enum_hiers(n, mb))
  n_ex = len(cases)
  for _ in range(nrand):
    cases.append(random_hier(rng))
  out = drv.batch(["cmro " + enc_lists(h) for h, _ in cases])
  dis = []
  nontriv = set()
  kinds = {"ok": 0, "inconsistent": 0, "duplicate": 0}
  for (h, real), m in zip(cases, out):
    for r in real.split("|"):
      k = "ok" if r.startswith("ok") else r[4:]
      kinds[k] = kinds.get(k, 0) + 1
    if any(len(b) >= 2 for b in h):
      nontriv.add(enc_lists(h))
    if real != m:
      dis.append({"part": "K2 Lean spec vs CPython type()", "hier": h, "cpython": real, "spec": m})
  dist["k2_exhaustive"] = n_ex
  dist["k2_exhaustive_bounds"] = ["%d classes after object, <=%d bases (with repetition)" % p for p in plans]
  dist["k2_random"] = nrand
  dist["k2_class_outcomes_cpython"] = kinds
  dist["k2_max_classes"] = max(len(h) for h, _ in cases)
  res.add_samples([{"K2": "cmro " + enc_lists(cases[-1][0]), "cpython=spec": cases[-1][1]}])
  return dis, len(cases), len(nontriv)


# ----------------------------------------------------------------------------
# programs
# ----------------------------------------------------------------------------
Item = collections.namedtuple("Item", "tag bases defs sdefs nattrs")
# defs[i]  = attributes a<k> class i defines (value: the literal unique to class i)
# sdefs[i] = attributes for which class i defines the reader `def s<k>(self): return super().a<k>`


def cname(tag, i):
  return "object" if i == 0 else "K%s_%d" % (tag, i)


READ_MODE = "both"  # "alt": one read per (class, attr), through the class or an instance alternately (quick K3)


def vias(it, i, a):
  v = "ci" if READ_MODE == "both" else ("c" if (i + a) % 2 == 0 else "i")
  if any(a in sd for sd in it.sdefs):
    v += "s"
  return v


GENERIC_HEADER = "from typing import Generic, TypeVar\nT = TypeVar('T')\n"


def is_generic_item(it):
  """hierarchies whose tag ends in 'g' are written with generic classes: every root class is `class K(Generic[T])`,
  and a base that can be subscripted is spelled plain, `[int]` or `[T]` (deterministically); the MRO is the plain one"""
  return it.tag.endswith("g")


def generic_heads(it):
  """-> {i: head line} for a generic-variant item"""
  tag, bases = it.tag, it.bases
  subs = {}          # class index -> can be subscripted
  heads = {}
  for i in range(1, len(bases)):
    bs = bases[i]
    if bs == [0]:
      heads[i] = "class %s(Generic[T]):" % cname(tag, i)
      subs[i] = True
      continue
    parts, mine = [], False
    for j, b in enumerate(bs):
      if b == 0:
        parts.append("object")
      elif subs.get(b):
        k = (i * 7 + b * 3 + j + len(bases)) % 3
        parts.append(cname(tag, b) + ["", "[int]", "[T]"][k])
        mine = mine or k == 2
      else:
        parts.append(cname(tag, b))
    heads[i] = "class %s(%s):" % (cname(tag, i), ", ".join(parts))
    subs[i] = mine
  return heads


def make_chunks(it):
  """Statements of one hierarchy: list of (kind, key, source); kind 'class' key i, kind 'read' key (i, a, via)."""
  tag, bases = it.tag, it.bases
  chunks = []
  gheads = generic_heads(it) if is_generic_item(it) else None
  for i in range(1, len(bases)):
    bs = bases[i]
    if gheads is not None:
      head = gheads[i]
    elif bs == [0] and (i + len(bases)) % 2 == 0:
      head = "class %s:" % cname(tag, i)
    else:
      head = "class %s(%s):" % (cname(tag, i), ", ".join(cname(tag, b) for b in bs))
    body = ["  a%d = %s" % (a, LITS[i - 1][0]) for a in it.defs[i]]
    for a in it.sdefs[i]:
      sup = "super()" if (i + a) % 3 else "super(%s, self)" % cname(tag, i)
      body.append("  def s%d(self): return %s.a%d" % (a, sup, a))
    chunks.append(("class", i, "\n".join([head] + (body or ["  pass"])) + "\n"))
  for i in range(1, len(bases)):
    for a in range(it.nattrs):
      v = vias(it, i, a)
      if "c" in v:
        chunks.append(("read", (i, a, "c"), "rc%s_%d_%d = %s.a%d\n" % (tag, i, a, cname(tag, i), a)))
      if "i" in v:
        chunks.append(("read", (i, a, "i"), "ri%s_%d_%d = %s().a%d\n" % (tag, i, a, cname(tag, i), a)))
      if "s" in v:
        chunks.append(("read", (i, a, "s"), "rs%s_%d_%d = %s().s%d()\n" % (tag, i, a, cname(tag, i), a)))
  return chunks


def program_text(it):
  return "".join(c[2] for c in make_chunks(it))


def random_defs(rng, nclasses, nattrs, p=None):
  defs = [[]]
  for _ in range(1, nclasses):
    q = p if p is not None else rng.choice([0.2, 0.4, 0.6])
    defs.append([a for a in range(nattrs) if rng.random() < q])
  return defs


def no_defs(nclasses):
  return [[] for _ in range(nclasses)]


def build_module(items):
  """Returns (source, line map: line number -> (tag, kind, key)); body lines of a class map to kind 'body'."""
  src = []
  lines = {}
  ln = 1
  if any(is_generic_item(it) for it in items):
    src.append(GENERIC_HEADER)
    ln += GENERIC_HEADER.count("\n")
  for it in items:
    for kind, key, text in make_chunks(it):
      lines[ln] = (it.tag, kind, key)
      n = text.count("\n")
      for extra in range(1, n):
        lines[ln + extra] = (it.tag, "body", key)
      src.append(text)
      ln += n
  return "".join(src), lines


_VAR_RE = re.compile(r"^r([cis])(\w+?)_(\d+)_(\d+): (.+)$")


def run_pytype(src):
  """Real pytype on one module -> (dict var -> type text, list of (name, line))."""
  from pytype import config, io
  ret, pyi = io.generate_pyi(src, config.Options.create(python_version=(3, 12)))
  errs = [(e.name, e.line) for e in ret.context.errorlog.unique_sorted_errors()]
  types = {}
  for line in pyi.splitlines():
    m = _VAR_RE.match(line)
    if m:
      types[(m.group(2), int(m.group(3)), int(m.group(4)), m.group(1))] = m.group(5)
  return types, errs


def observe_pytype(items, lines, types, errs):
  """Canonical observation per hierarchy: {tag: (class status list, reads dict)}; plus stray errors.
  attribute-errors reported inside a reader method (`super().a` finds nothing for *some* receiver the VM
  analysed, including the method's own class) are not attributed to a read; the read's type is compared."""
  mro_err = set()
  attr_err = set()
  generic_conflict = set()
  stray = []
  body_err = []
  for name, line in errs:
    loc = lines.get(line)
    if name == "mro-error" and loc and loc[1] == "class":
      mro_err.add((loc[0], loc[2]))
    elif name != "attribute-error" and loc and loc[0].endswith("g") and loc[1] in ("class", "body"):
      # generic variant: pytype's own diagnostics about generic classes (invalid-annotation for conflicting
      # parameterisations of one generic base, `class D(C, B[T])` with C(B); not-indexable after a failed class) are
      # not about the linearisation; pytype then gives up on that class (Any), so the hierarchy is left out
      generic_conflict.add(loc[0])
      continue
    elif name == "attribute-error" and loc and loc[1] == "read":
      attr_err.add((loc[0],) + loc[2])
    elif loc and loc[1] == "body":
      body_err.append((name, line, loc[0], loc[2]))
    else:
      stray.append("%s@%s" % (name, line))
  # inside a class body: attribute-error of a reader is expected; in the body of a class that got an mro-error
  # (pytype still analyses it, without a usable __class__) super() itself is reported
  for name, line, tag, i in body_err:
    if name == "attribute-error" or ((tag, i) in mro_err and name in ("name-error", "invalid-super-call")):
      continue
    stray.append("%s@%s" % (name, line))
  obs = {}
  for it in items:
    tag = it.tag
    status = ["ok"] + ["err" if (tag, i) in mro_err else "ok" for i in range(1, len(it.bases))]
    reads = {}
    for i in range(1, len(it.bases)):
      for a in range(it.nattrs):
        for via in vias(it, i, a):
          t = types.get((tag, i, a, via))
          if (tag, i, a, via) in attr_err:
            v = "-" if t == "Any" else "?attribute-error+%s" % t
          elif t == "Any":
            v = "E" if (via != "s" or status[i] == "err") else "A"
          elif t in PYI2LIT:
            v = str(PYI2LIT[t] + 1)  # literal k belongs to class k+1
          else:
            v = "?%s" % t
          reads[(i, a, via)] = v
    if tag not in generic_conflict:
      obs[tag] = (status, reads)
  return obs, stray


def observe_cpython(it):
  """The same statements executed one by one by the running interpreter."""
  ns = {}
  if is_generic_item(it):
    exec(GENERIC_HEADER, ns)  # pylint: disable=exec-used
  n = len(it.bases)
  status = ["ok"] * n
  kinds = [None] * n
  reads = {}
  for kind, key, text in make_chunks(it):
    try:
      exec(compile(text, "<c10>", "exec"), ns)  # pylint: disable=exec-used
      if kind == "read":
        var = text.split(" ", 1)[0]
        reads[key] = str(CPY2LIT[type(ns[var]).__name__] + 1)
    except TypeError as e:
      if kind == "class":
        status[key] = "err"
        kinds[key] = "duplicate" if "duplicate base class" in str(e) else (
            "inconsistent" if "consistent method resolution" in str(e) else "other")
      else:
        reads[key] = "?TypeError"
    except AttributeError:
      if kind != "read":
        status[key] = "?AttributeError"
      elif key[2] == "s" and hasattr(ns[cname(it.tag, key[0])], "s%d" % key[1]):
        reads[key] = "A"  # the reader ran, super().a found nothing
      else:
        reads[key] = "-"
    except NameError:
      if kind == "read":
        reads[key] = "E"
      else:
        status[key] = "err"
        kinds[key] = "badbase"
  return status, reads, kinds


def model_obs(drv, items):
  """Lean model of pytype -> [(status, reads)] in the order of items."""
  lines = []
  for it in items:
    h = enc_lists(it.bases)
    lines.append("pymro " + h)
    lines.append("pylookup %s %s %d" % (h, enc_lists(it.defs), it.nattrs))
    lines.append("pysuper %s %s %s %d" % (h, enc_lists(it.defs), enc_lists(it.sdefs), it.nattrs))
  out = drv.batch(lines)
  res = []
  for k, it in enumerate(items):
    status = ["ok" if r.startswith("ok") else "err" for r in out[3 * k].split("|")]
    look = [row.split(",") if it.nattrs else [] for row in out[3 * k + 1].split("|")]
    sup = [row.split(",") if it.nattrs else [] for row in out[3 * k + 2].split("|")]
    reads = {}
    for i in range(1, len(it.bases)):
      for a in range(it.nattrs):
        for via in vias(it, i, a):
          reads[(i, a, via)] = sup[i][a] if via == "s" else look[i][a]
    res.append((status, reads))
  return res


def _pool_init():
  common.load_pytype()


def _pool_task(items):
  src, lines = build_module(items)
  try:
    types, errs = run_pytype(src)
  except Exception as e:  # pylint: disable=broad-except
    return {"crash": "%s: %s" % (type(e).__name__, str(e)[:300]), "src": src}
  obs, stray = observe_pytype(items, lines, types, errs)
  return {"obs": obs, "stray": stray}


def run_programs(items, per_module):
  """Real pytype over all items (batched, parallel) -> {tag: (status, reads)}, list of problems."""
  jobs = [items[i:i + per_module] for i in range(0, len(items), per_module)]
  if not jobs:
    return {}, []
  nproc = max(1, min(16, os.cpu_count() or 1, len(jobs)))
  obs = {}
  problems = []
  ctx = multiprocessing.get_context("fork")
  with ctx.Pool(nproc, initializer=_pool_init) as pool:
    for job, r in zip(jobs, pool.imap(_pool_task, jobs)):
      if "crash" in r:
        problems.append({"part": "K3 pytype crashed", "exception": r["crash"], "program": r["src"][:3000]})
        continue
      obs.update(r["obs"])
      if r["stray"]:
        problems.append({"part": "K3 unexpected pytype errors", "errors": r["stray"][:10],
                         "program": build_module(job)[0][:3000]})
  return obs, problems


def run_one(it):
  """Real pytype, in-process, on one hierarchy."""
  src, lines = build_module([it])
  types, errs = run_pytype(src)
  obs, stray = observe_pytype([it], lines, types, errs)
  return obs[it.tag], errs, stray


def diff_obs(a, b):
  (sa, ra), (sb, rb) = a, b
  d = []
  for i, (x, y) in enumerate(zip(sa, sb)):
    if x != y:
      d.append("class %d: %s vs %s" % (i, x, y))
  for k in sorted(ra):
    if ra[k] != rb.get(k):
      d.append("read %s: %s vs %s" % (k, ra[k], rb.get(k)))
  return d


def program_inputs(rng, tier):
  hs = []
  # small hierarchies: thorough = every hierarchy of 3 classes after object with <= 3 bases (with repetition)
  # and of 4 classes with <= 2 bases
  if tier == "thorough":
    for h, _ in itertools.chain(enum_hiers(3, 3), enum_hiers(4, 2)):
      hs.append(h)
  else:  # quick: all with <= 2 bases, a seeded sample of those with a 3-base class
    hs += [h for h, _ in enum_hiers(3, 2)]
    three = [h for h, _ in enum_hiers(3, 3) if any(len(b) == 3 for b in h)]
    hs += rng.sample(three, min(110, len(three)))
  n_ex = len(hs)
  nrand = 1500 if tier == "thorough" else 170
  for _ in range(nrand):
    h, _ = random_hier(rng, pdup=0.08)
    hs.append(h)
  items = []
  for k, h in enumerate(hs):
    nattrs = 3 if k >= n_ex else 2
    sd = random_defs(rng, len(h), nattrs, p=rng.choice([0.0, 0.25, 0.4]))
    items.append(Item("%d" % k, h, random_defs(rng, len(h), nattrs), sd, nattrs))
  # the same linearisation question with generic classes: a deterministic family (every 3-class hierarchy with <= 2
  # bases that has no duplicate base, and every 7th such 4-class hierarchy) written with Generic roots and parameterised bases
  gen = [h for h, _ in enum_hiers(3, 2) if all(len(set(b)) == len(b) for b in h)]
  gen += [h for h, _ in enum_hiers(4, 2) if all(len(set(b)) == len(b) for b in h)][::7][:60]
  for k, h in enumerate(gen):
    defs = [[]] + [[a for a in range(2) if (i + a + k) % 2 == 0] for i in range(1, len(h))]
    items.append(Item("%dg" % k, h, defs, no_defs(len(h)), 2))
  return items, n_ex


def k3(res, rng, tier, drv, dist):
  global READ_MODE
  READ_MODE = "both" if tier == "thorough" else "alt"
  try:
    return _k3(res, rng, tier, drv, dist)
  finally:
    READ_MODE = "both"


def _k3(res, rng, tier, drv, dist):
  items, n_ex = program_inputs(rng, tier)
  t0 = time.time()
  obs, problems = run_programs(items, per_module=10)
  dist["k3_pytype_wall_s"] = round(time.time() - t0, 1)
  model = model_obs(drv, items)
  dis = list(problems)
  nontriv = set()
  stats = {"classes": 0, "mro_error_classes": 0, "dup_base_classes": 0, "reads": 0, "reads_inherited": 0,
           "reads_missing": 0, "super_reads": 0, "super_reads_resolved": 0}
  for it, mo in zip(items, model):
    if it.tag not in obs:
      continue
    po = obs[it.tag]
    stats["classes"] += len(it.bases) - 1
    stats["mro_error_classes"] += po[0].count("err")
    stats["dup_base_classes"] += sum(1 for b in it.bases if len(set(b)) < len(b))
    stats["reads"] += len(po[1])
    stats["reads_inherited"] += sum(1 for (i, a, v), d in po[1].items() if v != "s" and d.isdigit() and int(d) != i)
    stats["reads_missing"] += sum(1 for d in po[1].values() if d == "-")
    stats["super_reads"] += sum(1 for (i, a, v) in po[1] if v == "s")
    stats["super_reads_resolved"] += sum(1 for (i, a, v), d in po[1].items() if v == "s" and d.isdigit())
    if any(len(b) >= 2 for b in it.bases):
      nontriv.add((enc_lists(it.bases), enc_lists(it.defs), enc_lists(it.sdefs)))
    d = diff_obs(po, mo)
    if d:
      dis.append({"part": "K3 pytype on program vs model", "hier": it.bases, "defs": it.defs, "sdefs": it.sdefs,
                  "nattrs": it.nattrs, "diff(pytype vs model)": d[:8], "program": program_text(it)})
  dist["k3_programs_enumerated_small"] = n_ex
  dist["k3_programs_random"] = len(items) - n_ex
  dist["k3_observed"] = stats
  ex = items[-1]
  res.add_samples([{"K3 hierarchy": ex.bases, "defs": ex.defs, "super_readers": ex.sdefs,
                    "program": program_text(ex)[:1500],
                    "pytype=model class status": obs.get(ex.tag, ([], {}))[0]}])
  return dis, len(items), len(nontriv)


def k2b(res, rng, tier, drv, dist):
  """The CPython *specification* of lookups (cLookup, cSuperRead) against the interpreter executing programs."""
  n = 8000 if tier == "thorough" else 1200
  items = []
  for k in range(n):
    h, _ = random_hier(rng, pdup=0.05)
    items.append(Item("%d" % k, h, random_defs(rng, len(h), 3), random_defs(rng, len(h), 3, p=0.35), 3))
  lines = []
  for it in items:
    h = enc_lists(it.bases)
    lines.append("cmro " + h)
    lines.append("clookup %s %s %d" % (h, enc_lists(it.defs), it.nattrs))
    lines.append("csuper %s %s %s %d" % (h, enc_lists(it.defs), enc_lists(it.sdefs), it.nattrs))
  out = drv.batch(lines)
  dis = []
  nontriv = set()
  nreads = 0
  past_sibling = 0
  for k, it in enumerate(items):
    status = ["ok" if r.startswith("ok") else "err" for r in out[3 * k].split("|")]
    look = [row.split(",") for row in out[3 * k + 1].split("|")]
    sup = [row.split(",") for row in out[3 * k + 2].split("|")]
    reads = {}
    for i in range(1, len(it.bases)):
      for a in range(it.nattrs):
        for via in vias(it, i, a):
          reads[(i, a, via)] = sup[i][a] if via == "s" else look[i][a]
    cs, cr, _ = observe_cpython(it)
    nreads += len(cr)
    past_sibling += sum(1 for (i, a, v), d in cr.items() if v == "s" and d.isdigit())
    if any(len(b) >= 2 for b in it.bases):
      nontriv.add((enc_lists(it.bases), enc_lists(it.defs), enc_lists(it.sdefs)))
    d = diff_obs((cs, cr), (status, reads))
    if d:
      dis.append({"part": "K2b Lean spec of lookup/super vs CPython", "hier": it.bases, "defs": it.defs,
                  "sdefs": it.sdefs, "nattrs": it.nattrs, "diff(cpython vs spec)": d[:8],
                  "program": program_text(it)})
  dist["k2b_programs"] = n
  dist["k2b_reads_compared"] = nreads
  dist["k2b_super_reads_resolved"] = past_sibling
  return dis, n, len(nontriv)


# ----------------------------------------------------------------------------
# stub classes: mro.GetBasesInMRO on pytd.Class nodes
# ----------------------------------------------------------------------------
class _Ast:
  def __init__(self, classes):
    self.classes = classes

  def Lookup(self, name):  # pylint: disable=invalid-name
    return self.classes[name]


def stub_run(bases, use_cls_pointer):
  """GetBasesInMRO(cls_i) for every class of the hierarchy -> same text as the driver's `stub`."""
  from pytype.pytd import mro, pytd
  names = ["C%d" % i for i in range(len(bases))]
  classes = {}
  ctypes = []
  for i, bs in enumerate(bases):
    bts = tuple(pytd.ClassType(names[b]) for b in bs)
    ctypes.append(bts)
    classes[names[i]] = pytd.Class(name=names[i], keywords=(), bases=bts, methods=(), constants=(),
                                   classes=(), decorators=(), slots=None, template=())
  if use_cls_pointer:
    for bts in ctypes:
      for t in bts:
        t.cls = classes[t.name]
  ast = None if use_cls_pointer else _Ast(classes)
  out = []
  for i in range(len(bases)):
    try:
      r = mro.GetBasesInMRO(classes[names[i]], lookup_ast=ast)
      out.append("ok:" + enc_list([int(t.name[1:]) for t in r]))
    except mro.MROError:
      out.append("err")
    except Exception as e:  # pylint: disable=broad-except
      out.append("exc(%s)" % type(e).__name__)
  return "|".join(out)


def stub_inputs(rng, tier):
  hs = [h for h, _ in enum_hiers(3, 3)]
  # every hierarchy of 5 classes with at most 2 distinct bases each (memoised rows of _ComputeMRO only matter from
  # depth 2 on: the smallest hierarchies where a base is linearised through two different paths have 5 classes)
  hs += [h for h, _ in enum_hiers(5, 2, with_dups=False)]
  n_ex = len(hs)
  for _ in range(4000 if tier == "thorough" else 600):
    h, _ = random_hier(rng, pdup=0.08)
    if rng.random() < 0.2:  # stubs need not be acyclic: add a back edge / forward reference
      i = rng.randrange(len(h))
      h[i] = h[i] + [rng.randrange(i, len(h))]
    hs.append(h)
  return hs, n_ex


def k_stub(res, rng, tier, drv, dist):
  hs, n_ex = stub_inputs(rng, tier)
  out = drv.batch(["stub " + enc_lists(h) for h in hs])
  dis = []
  nontriv = set()
  cyc = 0
  for k, (h, m) in enumerate(zip(hs, out)):
    real = stub_run(h, use_cls_pointer=(k % 2 == 0))
    mm = "|".join(x if x.startswith("ok") else "err" for x in m.split("|"))
    if any(b >= i for i, bs in enumerate(h) for b in bs):
      cyc += 1
    if any(len(b) >= 2 for b in h):
      nontriv.add(enc_lists(h))
    if real != mm:
      dis.append({"part": "K3 stubs mro.GetBasesInMRO vs model", "hier": h, "real": real, "model": m})
  dist["stub_hierarchies"] = len(hs)
  dist["stub_exhaustive"] = n_ex
  dist["stub_with_cycle_or_forward_ref"] = cyc
  return dis, len(hs), len(nontriv)


# ----------------------------------------------------------------------------
# K4: the hierarchy is mutated between reads (class attributes assigned after the classes exist)
# ----------------------------------------------------------------------------
def k4(res, rng, tier, drv, dist):
  """Deterministic family, the property's own oracle (CPython executes the same source): an attribute is read through
  a class and its instance, then bound on another class of the hierarchy (between the reader and the old definer, on
  the reader itself, on a sibling, on the far base), then read again — for a chain, a diamond and a mixin shape.
  The type pytype infers for every read must be the type of the value CPython finds."""
  import re as _re
  shapes = {"chain": [("A", ""), ("B", "A"), ("C", "B")],
            "diamond": [("A", ""), ("B", "A"), ("S", "A"), ("C", "B, S")],
            "mixin": [("A", ""), ("M", ""), ("B", "A"), ("C", "M, B")]}
  vals = ["''", "2.5", "b''", "None", "[1]"]
  progs = []
  for sname, classes in shapes.items():
    names = [c for c, _ in classes]
    for definer in names[:-1]:
      for target in names:
        L = []
        for c, bs in classes:
          L.append("class %s_%s%s:" % (sname, c, "(%s)" % ", ".join("%s_%s" % (sname, b.strip()) for b in bs.split(",")) if bs else ""))
          L.append("  x = 1" if c == definer else "  pass")
        rd = "%s_C" % sname
        L += ["r0 = %s.x" % rd, "r1 = %s().x" % rd]
        k = 2
        for j, v in enumerate(vals[:3]):
          L.append("%s_%s.x = %s" % (sname, target if j != 1 else definer, v))
          L += ["r%d = %s.x" % (k, rd), "r%d = %s().x" % (k + 1, rd)]
          k += 2
        progs.append("\n".join(L) + "\n")
  dis = []
  n = 0
  for src in progs:
    ns = {}
    try:
      exec(compile(src, "<k4>", "exec"), ns)  # pylint: disable=exec-used
    except Exception:  # pylint: disable=broad-except
      continue
    from pytype import config, io
    try:
      ret, pyi = io.generate_pyi(src, config.Options.create(python_version=(3, 12)))
    except Exception as e:  # pylint: disable=broad-except
      dis.append({"part": "K4 mutated hierarchy", "what": "pytype raised %r" % (e,), "src": src})
      continue
    inferred = dict(_re.findall(r"^(r\d+): (.+)$", pyi, _re.M))
    for name, ty in sorted(inferred.items()):
      if name not in ns:
        continue
      n += 1
      want = type(ns[name]).__name__
      want = {"NoneType": "None"}.get(want, want)
      got = ty.split("[")[0]
      if got != want and ty != "Any":
        dis.append({"part": "K4 mutated hierarchy", "what": "read %s: CPython finds a %s, pytype infers %s" % (name, want, ty),
                    "src": src})
        break
  dist["k4_programs"] = len(progs)
  dist["k4_reads"] = n
  return dis, n, len(progs)


# ----------------------------------------------------------------------------
# K
# ----------------------------------------------------------------------------
def correspond(res, rng, tier):
  common.load_pytype()
  drv = common.ensure_driver("drv_c10")
  dist = {}
  dis = []
  evals = 0
  nontriv = 0
  for part in (k1, k2, k2b, k3, k_stub, k4):
    t0 = time.time()
    d, n, nt = part(res, rng, tier, drv, dist)
    dist[part.__name__ + "_wall_s"] = round(time.time() - t0, 1)
    dis += d
    evals += n
    nontriv += nt
  res.cov["evaluations"] = evals
  res.cov["distinct_nontrivial"] = nontriv
  res.cov["exhaustive"] = False
  res.cov["distribution"] = dist
  res.cov["rule"] = (
      "K1: real mro.MROMerge vs Lean mroMerge on sequence families (symbols canonically numbered): exhaustive "
      "duplicate-free families up to 4 sequences / 5 symbols (bounded length), exhaustive small families with "
      "repeated elements and with every SINGLETON mask, plus seeded random families up to 6 sequences / 8 symbols; "
      "K2: Lean cMroTable (spec) vs type(name, bases, {}) for all hierarchies of the stated bounds (bases are "
      "sequences with repetition over successfully created classes incl. object) plus random hierarchies up to 8 "
      "classes / 3 bases, outcome and error kind per class; K2b: Lean cLookup/cSuperRead vs the interpreter executing "
      "generated programs (getattr through class and instance, and reader methods `def s(self): return super().a`); K3: io.generate_pyi on generated programs (10 "
      "hierarchies per module, every class defines a random subset of attributes with a literal type unique to "
      "the class, and reader methods using zero- and two-argument super(); reads C.a, C().a - quick tier: one of the two, alternating - and C().s() for every class/attr) vs Lean pyMroTable/pyLookup: [mro-error] per class "
      "statement and definer of each read; stubs: mro.GetBasesInMRO on pytd.Class nodes (cls pointers or "
      "lookup_ast; incl. cyclic) vs Lean getBasesInMro; K4 (property oracle, no model): chain/diamond/mixin hierarchies "
      "whose classes get an attribute assigned between reads, every read's inferred type vs the value CPython finds. non-trivial = K1: >=2 non-empty sequences sharing a "
      "symbol; K2/K3/stubs: some class has >=2 bases; distinct = distinct inputs within each part (parts summed)")
  return dis


# ----------------------------------------------------------------------------
# W
# ----------------------------------------------------------------------------
def replay_program(src):
  """Property oracle on one source text: per class statement pytype's mro-error vs CPython's TypeError."""
  common.load_pytype()
  _, errs = run_pytype(src)
  py_lines = sorted(l for n, l in errs if n == "mro-error")
  # CPython: execute top-level statements one at a time
  import ast as pyast
  tree = pyast.parse(src)
  ns = {}
  c_lines = []
  msgs = []
  for st in tree.body:
    try:
      exec(compile(pyast.Module([st], []), "<w>", "exec"), ns)  # pylint: disable=exec-used
    except TypeError as e:
      c_lines.append(st.lineno)
      msgs.append(str(e))
    except Exception:  # pylint: disable=broad-except
      pass
  return py_lines, c_lines, msgs


def witnesses(res):
  known, fixed = common.known_findings("C10")
  replayed = []
  for e in known:
    try:
      py_lines, c_lines, msgs = replay_program(e["witness"]["program"])
    except Exception as ex:  # pylint: disable=broad-except
      # the analysis itself crashed: not the known finding; K reports crashes as disagreements
      replayed.append({"id": e["id"], "exception": "%s: %s" % (type(ex).__name__, str(ex)[:200])})
      continue
    still = py_lines != c_lines
    replayed.append({"id": e["id"], "pytype_mro_error_lines": py_lines, "cpython_typeerror_lines": c_lines,
                     "cpython_messages": msgs, "still_fails": still})
    if still:
      res.known_lines.append(e["what"])
  for e in fixed:
    try:
      py_lines, c_lines, msgs = replay_program(e["witness"]["program"])
    except Exception as ex:  # pylint: disable=broad-except
      py_lines, c_lines, msgs = ["crash: %r" % ex], [], []
    replayed.append({"id": e["id"], "fixed": True, "pytype_mro_error_lines": py_lines,
                     "cpython_typeerror_lines": c_lines})
    if py_lines != c_lines:
      res.violation("fixed-witness-" + e["id"], {"property": "C10", "kind": "fixed witness fails again",
                                                 "witness": e["witness"], "pytype": py_lines, "cpython": c_lines})
  res.cov["witnesses_replayed"] = replayed


# ----------------------------------------------------------------------------
# S: CPython as the oracle
# ----------------------------------------------------------------------------
def oracle_diff(bases, po, co):
  """pytype observation vs CPython observation, minus the characterised known region (a class whose own base
  list has a repeated entry: CPython 'duplicate base class', pytype no error)."""
  (ps, pr), (cs, cr, kinds) = po, co
  known = {i for i in range(len(bases))
           if len(set(bases[i])) < len(bases[i]) and kinds[i] == "duplicate" and ps[i] == "ok"}
  d = []
  for i in range(1, len(bases)):
    if i in known:
      continue
    if ps[i] != cs[i]:
      d.append("class %d: pytype %s, CPython %s%s" % (i, ps[i], cs[i], "(%s)" % kinds[i] if kinds[i] else ""))
  for k in sorted(pr):
    if k[0] in known:
      continue
    if pr[k] != cr.get(k):
      what = {"c": "K_%d.a%d", "i": "K_%d().a%d", "s": "K_%d().s%d()"}[k[2]] % (k[0], k[1])
      d.append("read %s: pytype definer %s, CPython %s" % (what, pr[k], cr.get(k)))
  return d


def valid_for_oracle(bases):
  """No class may name a class CPython failed to create (the program would stop there)."""
  live = Live()
  for bs in bases[1:]:
    if any(b >= len(live.types) or live.types[b] is None for b in bs) or not bs:
      return False
    live.add(bs)
  return True


def remove_class(it, j):
  nb, nd, ns = [], [], []
  for i, bs in enumerate(it.bases):
    if i == j:
      continue
    bs2 = [b - 1 if b > j else b for b in bs if b != j]
    nb.append(bs2 if (bs2 or i == 0) else [0])
    nd.append(it.defs[i])
    ns.append(it.sdefs[i])
  return it._replace(bases=nb, defs=nd, sdefs=ns)


def shrink_item(it, fails, budget_s=40):
  """Greedy: drop classes, then base entries, then attribute definitions / readers, then attribute names,
  while the oracle still fails."""
  t0 = time.time()
  changed = True
  while changed and time.time() - t0 < budget_s:
    changed = False
    for j in range(len(it.bases) - 1, 0, -1):
      c = remove_class(it, j)
      if len(c.bases) > 1 and valid_for_oracle(c.bases) and fails(c):
        it, changed = c, True
        break
    if changed:
      continue
    for i in range(1, len(it.bases)):
      for p in range(len(it.bases[i])):
        if len(it.bases[i]) > 1:
          nb = [list(b) for b in it.bases]
          del nb[i][p]
          c = it._replace(bases=nb)
          if valid_for_oracle(nb) and fails(c):
            it, changed = c, True
            break
      if changed:
        break
    if changed:
      continue
    for field in ("defs", "sdefs"):
      cur = getattr(it, field)
      for i in range(1, len(cur)):
        for a in list(cur[i]):
          nd = [list(x) for x in cur]
          nd[i].remove(a)
          c = it._replace(**{field: nd})
          if fails(c):
            it, changed = c, True
            break
        if changed:
          break
      if changed:
        break
  for n in range(it.nattrs):  # fewest attribute names (hence reads) that still show the failure
    if all(a < n for d in it.defs + it.sdefs for a in d):
      c = it._replace(nattrs=n)
      if fails(c):
        it = c
        break
  return it


def stub_oracle_fail(bases):
  """GetBasesInMRO vs CPython's __mro__[1:] for acyclic hierarchies (known region skipped).
  Returns None or dict(class, pytype order, cpython order)."""
  if not valid_for_oracle(bases):
    return None
  live = Live()
  for bs in bases[1:]:
    live.add(bs)
  cp = live.results().split("|")
  real = stub_run(bases, True).split("|")
  for i in range(1, len(bases)):
    if len(set(bases[i])) < len(bases[i]):
      continue
    want = "ok:" + enc_list([int(x) for x in cp[i][3:].split(",")][1:]) if cp[i].startswith("ok") else "err"
    if real[i] != want:
      return {"class": i, "GetBasesInMRO": real[i], "cpython___mro__[1:]": want}
  return None


def targeted_item(bases, f):
  """A program in which the attribute is defined exactly by the two classes the two linearisations order
  differently, so that the wrong order shows as a wrong attribute type."""
  defs = no_defs(len(bases))
  if f["GetBasesInMRO"].startswith("ok") and f["cpython___mro__[1:]"].startswith("ok"):
    p = [int(x) for x in f["GetBasesInMRO"][3:].split(",") if x != "-"]
    q = [int(x) for x in f["cpython___mro__[1:]"][3:].split(",") if x != "-"]
    for x, y in zip(p, q):
      if x != y:
        for c in (x, y):
          if c != 0:
            defs[c] = [0]
        break
  return Item("x", bases, defs, no_defs(len(bases)), 1)


def three_base_hier(rng):
  """Hierarchies biased towards what separates C3 variants: >= 5 classes, a class with three bases one of which
  is an ancestor of another, unrelated chains in between."""
  live = Live()
  n = rng.choice([5, 6, 7, 8])
  for i in range(1, n + 1):
    al = [a for a in live.alive() if a != 0]
    if i >= 4 and len(al) >= 3 and rng.random() < 0.6:
      bs = rng.sample(al, 3)
      if rng.random() < 0.7:
        bs.sort(reverse=True)
        if rng.random() < 0.5:
          bs[0], bs[1] = bs[1], bs[0]
    elif al and rng.random() < 0.75:
      bs = rng.sample(al, min(len(al), rng.choice([1, 1, 2])))
    else:
      bs = [0]
    live.add(bs)
  return [list(b) for b in live.bases]


def search(res, rng, disagreements, pfail):
  common.load_pytype()
  t_start = time.time()
  found = []
  # a crash of the analysis on a plain class hierarchy is itself a failing input: find the smallest
  for src in ["class A:\n  x = 1\nr = A.x\n",
              "class A: pass\nclass B(A): pass\nclass C(B, A):\n  x = 1\nr = C().x\n"]:
    try:
      run_pytype(src)
    except Exception as e:  # pylint: disable=broad-except
      found.append({"kind": "pytype crashes on a valid program (CPython runs it)", "program": src,
                    "exception": "%s: %s" % (type(e).__name__, str(e)[:300])})
      return found

  def fails(it):
    o, _, _ = run_one(it)
    return bool(oracle_diff(it.bases, o, observe_cpython(it)))

  def report(it, kind):
    try:
      it = shrink_item(it, fails)
      o, errs, _ = run_one(it)
    except Exception as e:  # pylint: disable=broad-except
      found.append({"kind": "pytype crashed", "program": program_text(it), "exception": repr(e)[:300]})
      return
    co = observe_cpython(it)
    if any(f.get("program") == program_text(it) for f in found):
      return
    found.append({"kind": kind, "hier": it.bases, "defs": it.defs, "super_readers": it.sdefs,
                  "program": program_text(it), "oracle_diff": oracle_diff(it.bases, o, co)[:10],
                  "pytype_errors": errs, "cpython_class_status": co[0]})

  # 1. linearisation level, cheap: real mro.GetBasesInMRO (same MergeSequences as the VM) against CPython's
  #    __mro__ on many hierarchies; a hit is turned into a program whose attribute types expose the order.
  stub_c = [d["hier"] for d in disagreements if "hier" in d]
  stub_c += [h for h, _ in enum_hiers(3, 3)] + [h for h, _ in enum_hiers(4, 2)]
  stub_c += [random_hier(rng)[0] for _ in range(4000)] + [three_base_hier(rng) for _ in range(12000)]
  stub_hits = []
  for h in stub_c:
    if time.time() - t_start > 120 or len(stub_hits) >= 5:
      break
    try:
      f = stub_oracle_fail(h)
    except Exception as e:  # pylint: disable=broad-except
      f = {"exception": repr(e)}
    if f:
      stub_hits.append((h, f))
  stub_hits.sort(key=lambda x: len(x[0]))
  for h, f in stub_hits[:2]:
    if "exception" in f:
      continue
    it = targeted_item(h, f)
    try:
      if fails(it):
        report(it, "program: pytype vs CPython (found via the linearisation of stub classes)")
        break
    except Exception:  # pylint: disable=broad-except
      pass
  if stub_hits and not found:
    h, f = stub_hits[0]
    found.append(dict(f, kind="stub classes: mro.GetBasesInMRO vs CPython __mro__[1:]", hier=h))
  if found:
    res.cov["search"] = {"linearisation_candidates": len(stub_c), "linearisation_hits": len(stub_hits)}
    return found
  # 2. program level: the disagreeing inputs, the exhaustive small space and fresh random hierarchies
  cands = []
  for d in disagreements:
    if "hier" in d and "defs" in d:
      cands.append(Item("", d["hier"], d["defs"], d.get("sdefs") or no_defs(len(d["hier"])), d["nattrs"]))
  for h, _ in enum_hiers(3, 2):
    cands.append(Item("", h, random_defs(rng, len(h), 2), random_defs(rng, len(h), 2, p=0.3), 2))
  for _ in range(250):
    h, _ = random_hier(rng)
    cands.append(Item("", h, random_defs(rng, len(h), 3), random_defs(rng, len(h), 3, p=0.3), 3))
  items = [c._replace(tag="%d" % k) for k, c in enumerate(c for c in cands if valid_for_oracle(c.bases))]
  obs, problems = run_programs(items, per_module=10)
  for p in problems:
    if "exception" in p:
      found.append({"kind": "pytype crashed", "exception": p["exception"], "program": p["program"]})
      break
  failing = []
  for it in items:
    if it.tag in obs and oracle_diff(it.bases, obs[it.tag], observe_cpython(it)):
      failing.append(it)
  failing.sort(key=lambda it: len(it.bases))
  for it in failing[:2]:
    report(it._replace(tag="x"), "program: pytype vs CPython")
  res.cov["search"] = {"linearisation_candidates": len(stub_c), "linearisation_hits": len(stub_hits),
                       "program_candidates": len(items), "failing_before_shrink": len(failing)}
  return found


def main():
  return common.run_check(
      "C10", REQUIRED, correspond, witnesses, search,
      trusted=["hand-written model of mro.py (MergeSequences/Dedup/MROMerge/_ComputeMRO/GetBasesInMRO), "
               "class_mixin.compute_mro and the mro walk of attribute._lookup_from_mro; tied by K1/K3",
               "Lean transcription of CPython 3.12 pmerge/mro_implementation/check_duplicates (remain[] indices "
               "modelled as list suffixes); tied to the running interpreter by K2",
               "the memo dict of _ComputeMRO is modelled as semantically transparent (argued in Sem/Mro.lean, "
               "exercised by the stub correspondence incl. cyclic stubs)"],
      assumptions=["classes are plain (no generics/ParameterizedClass, metaclasses, Any/unsolvable bases): "
                   "_Degenerify, base2cls and get_mro_bases' Generic filtering are not modelled",
                   "a class whose creation failed is never named by a later class (CPython would raise NameError; "
                   "pytype continues with Any)",
                   "each base expression denotes one class (get_mro_bases picks data[0] of ambiguous bases)"])


if __name__ == "__main__":
  sys.exit(main())
